// Package lin decides linearizability of small histories against the reference
// model (Wing–Gong/Lowe style depth-first search with memoisation on
// (linearised set, model state)).
package lin

import (
	"fmt"
	"math"
	"sort"
	"strings"

	"github.com/fufuok/cache/zzverif/model"
)

// Ev is one operation of a history. Res == nil marks a pending call (it may or
// may not have taken effect; its outcome is unknown).
type Ev struct {
	Op     model.Op
	Res    *model.Res
	Inv    int64
	Ret    int64
	Thread int    // -1 = sequential prefix/suffix
	Parent string // for pseudo-ops: the call they were decomposed from
	CBAmbig  bool    // a SetEvictedCallback overlaps this call: it may have used the callback in force before or after
	CBCands  []model.CBState // ... namely any of these settings (the one at its invocation plus every overlapping SetEvictedCallback)
	DefCands []int64 // default expirations set by SetDefaultExpiration calls overlapping this call (it may have read any of them)
	Nows   []int64 // ticking-clock mode, pseudo-ops: [first clock read, clock at return] (the span the call may decide in)
	Reads  []int64 // ticking-clock mode, ordinary calls: every instant the call read; it may decide visibility by any of them and stamp a new expiry from any of them
}

const Pending = math.MaxInt64

func (e Ev) String() string {
	who := "seq"
	if e.Thread >= 0 {
		who = fmt.Sprintf("T%d", e.Thread)
	}
	res := "pending"
	if e.Res != nil {
		res = e.Res.String()
	}
	p := ""
	if e.Parent != "" {
		p = " of " + e.Parent
	}
	ret := fmt.Sprint(e.Ret)
	if e.Ret == Pending {
		ret = "∞"
	}
	return fmt.Sprintf("[%d,%s] %s %s%s -> %s", e.Inv, ret, who, e.Op.String(), p, res)
}

// Verdict of a check.
type Verdict struct {
	OK      bool
	Order   []int  // a witness linearisation (indices into the sorted history) when OK
	Explain string // why not, when !OK
	Nodes   int
}

type searcher struct {
	evs      []Ev
	n        int
	required uint64 // mask of completed ops
	memo     map[string]struct{}
	nodes    int
	best     int
	bestMask uint64
	bestErrs []string
	order    []int
	limit    int
}

// Check decides whether evs is linearizable starting from init (not modified).
func Check(init *model.M, evs []Ev) Verdict {
	es := append([]Ev(nil), evs...)
	sort.SliceStable(es, func(i, j int) bool { return es[i].Inv < es[j].Inv })
	if len(es) > 64 {
		return Verdict{OK: false, Explain: fmt.Sprintf("history too long for the checker (%d ops)", len(es))}
	}
	s := &searcher{evs: es, n: len(es), memo: map[string]struct{}{}, best: -1, limit: 4000000}
	for i, e := range es {
		if e.Res != nil {
			s.required |= 1 << uint(i)
		}
	}
	ok := s.dfs(init.Clone(), 0, 0)
	v := Verdict{OK: ok, Nodes: s.nodes}
	if ok {
		v.Order = append([]int(nil), s.order...)
		return v
	}
	if s.nodes >= s.limit {
		v.Explain = "search budget exhausted (inconclusive)"
		return v
	}
	var sb strings.Builder
	fmt.Fprintf(&sb, "no linearisation exists. History (sorted by invocation):\n")
	for i, e := range es {
		mark := " "
		if s.bestMask&(1<<uint(i)) != 0 {
			mark = "*"
		}
		fmt.Fprintf(&sb, "  %s#%d %s\n", mark, i, e.String())
	}
	fmt.Fprintf(&sb, "deepest attempt linearised the %d ops marked *; every remaining candidate is impossible there:\n", s.best)
	for _, e := range s.bestErrs {
		fmt.Fprintf(&sb, "  %s\n", e)
	}
	v.Explain = sb.String()
	return v
}

func (s *searcher) dfs(st *model.M, mask uint64, depth int) bool {
	if mask&s.required == s.required {
		return true
	}
	s.nodes++
	if s.nodes >= s.limit {
		return false
	}
	key := string([]byte{byte(mask), byte(mask >> 8), byte(mask >> 16), byte(mask >> 24), byte(mask >> 32), byte(mask >> 40), byte(mask >> 48), byte(mask >> 56)}) + st.Hash()
	if _, seen := s.memo[key]; seen {
		return false
	}
	// minimal return among not-yet-linearised completed ops
	minRet := int64(math.MaxInt64)
	for i := 0; i < s.n; i++ {
		if mask&(1<<uint(i)) == 0 && s.evs[i].Ret < minRet {
			minRet = s.evs[i].Ret
		}
	}
	var errs []string
	for i := 0; i < s.n; i++ {
		if mask&(1<<uint(i)) != 0 {
			continue
		}
		e := &s.evs[i]
		if e.Inv > minRet {
			break // sorted by Inv: nothing later can be minimal
		}
		// an entry that "may or may not have been cleaned up" is resolved both ways for the call that meets it
		variants := []*model.M{st.Clone()}
		if k := e.Op.Key; e.Op.K.Keyed() && k >= 0 && k < len(st.Ents) && st.Ents[k].Phys == model.Maybe {
			variants[0].Ents[k].Phys = model.Present
			gone := st.Clone()
			gone.Ents[k] = model.Ent{}
			variants = append(variants, gone)
		}
		if len(e.DefCands) > 0 {
			// the call samples the default expiration at some moment of its own, not necessarily
			// at its linearisation point: any default in force during the call is acceptable
			base := variants
			for _, dc := range e.DefCands {
				for _, b := range base {
					c := b.Clone()
					d := dc
					c.DOvr = &d
					variants = append(variants, c)
				}
			}
		}
		if e.CBAmbig {
			base := variants
			for _, b := range base {
				if len(e.CBCands) == 0 {
					c := b.Clone()
					c.CBSave, c.CBTagSave = c.CB, c.CBTag
					c.CB, c.CBTag = !c.CB, 0
					c.CBFlip = true
					variants = append(variants, c)
					continue
				}
				for _, cs := range e.CBCands {
					if cs.On == b.CB && (cs.Tag == b.CBTag || !cs.On) {
						continue // the base variant itself
					}
					c := b.Clone()
					c.CBSave, c.CBTagSave = c.CB, c.CBTag
					c.CB, c.CBTag = cs.On, cs.Tag
					c.CBFlip = true
					variants = append(variants, c)
				}
			}
		}
		if len(e.Reads) > 0 {
			// which of its clock reads a call uses for which decision is an implementation detail
			base := variants
			variants = nil
			for _, b := range base {
				for _, lv := range e.Reads {
					for _, st := range e.Reads {
						c := b.Clone()
						c.DOvr, c.CBFlip, c.CBSave, c.CBTagSave = b.DOvr, b.CBFlip, b.CBSave, b.CBTagSave
						c.PinNow, c.PinStamp = lv, st
						variants = append(variants, c)
					}
				}
			}
		}
		for _, c := range variants {
			if c.PinNow != 0 {
				c.At([]int64{c.PinNow, c.PinStamp})
				c.PinNow, c.PinStamp = 0, 0
			} else {
				c.At(e.Nows)
			}
			err := c.Step(&e.Op, e.Res)
			c.DOvr = nil
			if c.CBFlip {
				c.CB, c.CBTag = c.CBSave, c.CBTagSave
				c.CBFlip = false
			}
			if err != nil {
				if depth >= s.best {
					errs = append(errs, fmt.Sprintf("#%d %s: %v", i, e.Op.String(), err))
				}
				continue
			}
			s.order = append(s.order, i)
			if s.dfs(c, mask|1<<uint(i), depth+1) {
				return true
			}
			s.order = s.order[:len(s.order)-1]
		}
	}
	if depth > s.best {
		s.best = depth
		s.bestMask = mask
		s.bestErrs = errs
	}
	s.memo[key] = struct{}{}
	return false
}
