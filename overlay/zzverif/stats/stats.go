// Package stats collects what a shard actually explored and writes it as JSON
// for the driver to merge into evidence/<id>.json.
package stats

import (
	"encoding/json"
	"hash/fnv"
	"os"
	"sort"
	"strconv"
	"sync"
)

type S struct {
	mu       sync.Mutex
	Counters map[string]int64  `json:"counters"`
	Samples  []json.RawMessage `json:"samples"`
	NT       map[uint64]struct{} `json:"-"`
	NTList   []string          `json:"nt_hashes"`
	NTCapped bool              `json:"nt_capped"`
	Notes    []string          `json:"notes,omitempty"`
	seen     int64
	maxSamp  int
	ntCap    int
}

var G = &S{Counters: map[string]int64{}, NT: map[uint64]struct{}{}, maxSamp: 6, ntCap: 300000}

func Add(name string, n int64) {
	G.mu.Lock()
	G.Counters[name] += n
	G.mu.Unlock()
}

func Inc(name string) { Add(name, 1) }

func Max(name string, v int64) {
	G.mu.Lock()
	if v > G.Counters[name] {
		G.Counters[name] = v
	}
	G.mu.Unlock()
}

// Hash64 hashes canonical text.
func Hash64(parts ...string) uint64 {
	h := fnv.New64a()
	for _, p := range parts {
		h.Write([]byte(p))
		h.Write([]byte{0})
	}
	return h.Sum64()
}

// NonTrivial records a distinct non-trivial case by hash.
func NonTrivial(h uint64) {
	G.mu.Lock()
	if len(G.NT) < G.ntCap {
		G.NT[h] = struct{}{}
	} else if _, ok := G.NT[h]; !ok {
		G.NTCapped = true
	}
	G.mu.Unlock()
}

// Sample offers a case for the evidence reservoir (deterministic: keeps the
// first few and then every 2^k-th).
func Sample(v interface{}) {
	G.mu.Lock()
	defer G.mu.Unlock()
	G.seen++
	keep := false
	if len(G.Samples) < G.maxSamp {
		keep = true
	} else if G.seen&(G.seen-1) == 0 {
		keep = true
	}
	if !keep {
		return
	}
	b, err := json.Marshal(v)
	if err != nil {
		return
	}
	if len(G.Samples) < G.maxSamp {
		G.Samples = append(G.Samples, b)
	} else {
		G.Samples[int(G.seen>>3)%G.maxSamp] = b
	}
}

func Note(s string) {
	G.mu.Lock()
	if len(G.Notes) < 50 {
		G.Notes = append(G.Notes, s)
	}
	G.mu.Unlock()
}

// Flush writes the collected statistics to the file named by VERIF_STATS.
func Flush() {
	p := os.Getenv("VERIF_STATS")
	if p == "" {
		return
	}
	G.mu.Lock()
	defer G.mu.Unlock()
	G.NTList = G.NTList[:0]
	for h := range G.NT {
		G.NTList = append(G.NTList, strconv.FormatUint(h, 16))
	}
	sort.Strings(G.NTList)
	b, _ := json.Marshal(G)
	_ = os.WriteFile(p, b, 0o644)
}
