package props

import (
	"encoding/json"
	"fmt"

	"github.com/fufuok/cache/zzverif/adapt"
	"github.com/fufuok/cache/zzverif/model"
	"github.com/fufuok/cache/zzverif/stats"
	"github.com/fufuok/cache/zzverif/vs"
	"pgregory.net/rapid"
)

// C07, sequential half: traversals of generated contents with a visitor that
// stops early or modifies the container it is traversing.

const c07Keys = 3400

func genC07Spec(rt *rapid.T) adapt.Spec {
	s := adapt.Spec{Kind: pick(rt, []string{"map", "mapof", "mapof", "cache", "cacheof"}, "container")}
	switch s.Kind {
	case "mapof":
		s.Key = pick(rt, []string{"int", "string", "struct"}, "keytype")
		s.Hasher = pick(rt, []string{"", "", "const", "lowbits", "sameh2", "samebucket", "identity"}, "hasher")
	case "cacheof":
		s.Key = pick(rt, []string{"int", "string"}, "keytype")
	}
	if s.Kind == "map" || s.Kind == "mapof" {
		if irange(rt, 0, 5, "presized") == 0 {
			s.Presize = pick(rt, []int{-1, 300, 2000}, "presize")
		}
	} else {
		s.CB = rapid.Bool().Draw(rt, "callback")
	}
	return s
}

// checkTraversal is the C07 oracle for one traversal with visitor behaviour.
// before: live entries when the traversal began. now0/now1: clock at begin/end.
func checkTraversal(m *model.M, before map[int]model.Ent, o *model.Op, r *model.Res, now0, now1 int64, isCache bool) error {
	executed := 0
	for _, mu := range o.Muts {
		if mu.At < len(r.Vis) {
			executed++
		}
	}
	_ = executed
	// values each key held during the traversal
	held := map[int][]int{}
	touched := map[int]bool{}
	for k, e := range before {
		held[k] = append(held[k], e.V)
	}
	for _, mu := range o.Muts {
		if mu.At >= len(r.Vis) {
			continue
		}
		key := mu.Op.Key
		if mu.Cur {
			key = r.Vis[mu.At].K
		}
		switch mu.Op.K {
		case model.MStore, model.CSet, model.CSetForever:
			held[key] = append(held[key], mu.Op.Val)
			touched[key] = true
		case model.MDelete, model.CDelete:
			touched[key] = true
		}
	}
	if o.N > 0 && len(r.Vis) > o.N {
		return fmt.Errorf("visitor returned false at call %d but was called %d times", o.N, len(r.Vis))
	}
	seen := map[int]bool{}
	for _, kv := range r.Vis {
		if seen[kv.K] {
			return fmt.Errorf("key k%d visited twice", kv.K)
		}
		seen[kv.K] = true
		ok := false
		for _, v := range held[kv.K] {
			if v == kv.V {
				ok = true
			}
		}
		if !ok {
			return fmt.Errorf("visited (k%d,%d): that key never held that value during the traversal (held %v; absent or expired at its start otherwise)", kv.K, kv.V, held[kv.K])
		}
	}
	stopped := o.N > 0 && len(r.Vis) >= o.N
	if !stopped {
		for k, e := range before {
			if touched[k] || seen[k] {
				continue
			}
			if isCache && e.E != 0 && now1 > e.E {
				continue // expired during the traversal (visitor advanced the clock): optional
			}
			return fmt.Errorf("k%d (value %d) stayed present and unexpired for the whole traversal but was not visited (%d of %d live entries visited)", k, e.V, len(r.Vis), len(before))
		}
	}
	return nil
}

func runC07Case(rt *rapid.T) {
	spec := genC07Spec(rt)
	layout := rapid.Uint64().Draw(rt, "layoutSeed")
	vs.ClockOn = true
	vs.NowNS = vs.Epoch
	vs.SetLayoutSeed(layout)
	c := &Case{Spec: spec, Layout: layout}
	api := adapt.New(spec)
	defer api.Release()
	isCache := spec.IsCache()
	m := model.New(c07Keys, vs.Epoch, adapt.EffDefault(spec), spec.CB)
	var hist []string
	next := 1
	fail := func(kind, desc, detail string) {
		v := e1Violation("C07", c, kind, desc, detail, hist)
		v.Engine = "E1-C07"
		writeReplay(v)
		rt.Fatalf("VIOLATION %s\ncase:\n%s", v.Short(), c.Text())
	}
	do := func(o model.Op) model.Res {
		c.Ops = append(c.Ops, o)
		res, f := e1Exec(api, &o)
		hist = append(hist, fmt.Sprintf("%s -> %s", o.String(), res.String()))
		if f != nil {
			fail("scheduler:"+f.Kind, f.Kind+":"+o.K.String(), fmt.Sprintf("%s did not return: %s", o.String(), f.Detail))
		}
		return res
	}
	step := func(o model.Op) {
		res := do(o)
		if err := m.Step(&o, &res); err != nil {
			fail("sequential", "seq:"+o.K.String(), fmt.Sprintf("%s -> %s: %v", o.String(), res.String(), err))
		}
	}
	kStore, kDel, kClear, kRange := model.MStore, model.MDelete, model.MClear, model.MRange
	if isCache {
		kStore, kDel, kClear, kRange = model.CSet, model.CDelete, model.CClear, model.CRange
	}
	// contents
	nph := irange(rt, 1, 4, "phases")
	big := false
	for ph := 0; ph < nph; ph++ {
		switch irange(rt, 0, 9, "phase") {
		case 0, 1, 2, 3, 4:
			n := irange(rt, 1, 30, "n")
			if irange(rt, 0, 2, "big") == 0 {
				n = irange(rt, 100, 1000, "nBig") * irange(rt, 1, 3, "mult")
				big = true
			}
			o := model.Op{K: model.HBulkSet, Key: 100 + irange(rt, 0, 40, "off"), N: n, Val: 1000000 + next*10000, D: model.NoExpiration}
			next++
			if isCache {
				o.D = pick(rt, []int64{model.NoExpiration, model.NoExpiration, 5, 60, 1000}, "ttl")
			}
			step(o)
		case 5, 6:
			step(model.Op{K: model.HBulkDel, Key: 100 + irange(rt, 0, 200, "off"), N: irange(rt, 1, 900, "n")})
		case 7:
			step(model.Op{K: kClear})
		default:
			if isCache {
				step(model.Op{K: model.HAdvance, D: int64(irange(rt, 1, 100, "adv"))})
			} else {
				step(model.Op{K: model.HBulkDel, Key: 100, N: 3200})
			}
		}
	}
	for i := 0; i < irange(rt, 0, 5, "singles"); i++ {
		k := irange(rt, 0, 7, "key")
		if rapid.Bool().Draw(rt, "del") {
			step(model.Op{K: kDel, Key: k})
		} else {
			next++
			step(model.Op{K: kStore, Key: k, Val: next, D: model.NoExpiration})
		}
	}
	// the traversal
	before := map[int]model.Ent{}
	var liveKeys []int
	for i := range m.Ents {
		if m.Live(i) {
			before[i] = m.Ents[i]
			liveKeys = append(liveKeys, i)
		}
	}
	o := model.Op{K: kRange}
	if isCache && irange(rt, 0, 3, "items") == 0 {
		o.K = model.CItems
	}
	if o.K != model.CItems {
		if irange(rt, 0, 2, "stop") == 0 {
			o.N = irange(rt, 1, 12, "stopAfter")
		}
		nm := irange(rt, 0, 4, "muts")
		if irange(rt, 0, 3, "restorePattern") == 0 {
			// the visitor deletes the key it is visiting, stores a fresh key (which may reuse the freed
			// slot) and stores the visited key again (which may land further down the chain)
			at := irange(rt, 0, 12, "at")
			next += 2
			o.Muts = append(o.Muts,
				model.Mut{At: at, Cur: true, Op: model.Op{K: kDel}},
				model.Mut{At: at, Op: model.Op{K: kStore, Key: 3320 + at, Val: next - 1, D: model.NoExpiration}},
				model.Mut{At: at, Cur: true, Op: model.Op{K: kStore, Val: next, D: model.NoExpiration}})
		}
		for i := 0; i < nm; i++ {
			at := irange(rt, 0, 20, "at")
			if len(liveKeys) > 40 && rapid.Bool().Draw(rt, "late") {
				at = irange(rt, 0, 1000, "atLate") % len(liveKeys)
			}
			var key int
			switch irange(rt, 0, 2, "target") {
			case 0:
				key = 3300 + i // fresh key
			case 1:
				if len(liveKeys) > 0 {
					key = liveKeys[irange(rt, 0, 1023, "victim")%len(liveKeys)]
				} else {
					key = i
				}
			default:
				key = irange(rt, 0, 7, "hotkey")
			}
			var mo model.Op
			switch irange(rt, 0, 3, "mutKind") {
			case 0, 1:
				next++
				mo = model.Op{K: kStore, Key: key, Val: next, D: model.NoExpiration}
			case 2:
				mo = model.Op{K: kDel, Key: key}
			default:
				if isCache {
					mo = model.Op{K: model.HAdvance, D: int64(irange(rt, 1, 80, "adv"))}
				} else {
					mo = model.Op{K: kDel, Key: key}
				}
			}
			o.Muts = append(o.Muts, model.Mut{At: at, Op: mo})
			if (mo.K == kDel || mo.K == kStore) && irange(rt, 0, 5, "gcAfterMut") == 0 {
				// the entry just unlinked may still sit in the traversal's private copy: collect and reuse memory now
				o.Muts = append(o.Muts, model.Mut{At: at, Op: model.Op{K: model.HGC}})
			}
		}
	}
	ts := api.Table()
	now0 := vs.NowNS
	res := do(o)
	now1 := vs.NowNS
	if res.Panic != "" {
		fail("panic", "panic:"+o.K.String(), res.Panic)
	}
	if err := checkTraversal(m, before, &o, &res, now0, now1, isCache); err != nil {
		fail("sequential", "traversal", fmt.Sprintf("%s -> %s: %v", o.String(), res.String(), err))
	}
	// bring the model up to date with what the visitor did, then exact read-back
	m.Now = now0
	for at := 0; at < len(res.Vis); at++ {
		for _, mu := range o.Muts {
			if mu.At == at {
				mo := mu.Op
				if mu.Cur {
					mo.Key = res.Vis[at].K
				}
				if err := m.Step(&mo, nil); err != nil {
					fail("sequential", "model", err.Error())
				}
			}
		}
	}
	if m.Now != now1 {
		fail("sequential", "harness", fmt.Sprintf("clock bookkeeping %d vs %d", m.Now, now1))
	}
	step(model.Op{K: kRange})
	if isCache {
		step(model.Op{K: model.CItems})
		step(model.Op{K: model.CCount})
	} else {
		step(model.Op{K: model.MSize})
	}
	stats.Inc("cases")
	nt := false
	if len(o.Muts) > 0 {
		stats.Inc("cases_visitor_mutates")
		nt = true
	}
	if o.N > 0 {
		stats.Inc("cases_visitor_stops")
		nt = true
	}
	if ts.OK && ts.Total > ts.Root {
		stats.Inc("cases_overflow_buckets")
		nt = true
	}
	if ts.OK && (ts.Growths > 0 || ts.Shrinks > 0) {
		stats.Inc("cases_resized_before_traversal")
	}
	if big {
		stats.Inc("cases_thousands_of_keys")
		nt = true
	}
	if nt {
		stats.NonTrivial(stats.Hash64(c.Text()))
	}
	if len(hist) > 12 {
		hist = hist[len(hist)-12:]
	}
	stats.Sample(map[string]interface{}{"container": spec.String(), "live_entries_before_traversal": len(before), "last_calls": hist})
}

func replayC07(v *Violation) *Violation {
	var c Case
	if err := json.Unmarshal(v.Extra, &c); err != nil {
		return nil
	}
	// re-execute the recorded calls; the traversal is the op with visitor behaviour or the last Range before the read-back
	for i := uint64(0); i < 32; i++ {
		lay := c.Layout + i*0x9e3779b97f4a7c15
		vs.ClockOn = true
		vs.NowNS = vs.Epoch
		vs.SetLayoutSeed(lay)
		api := adapt.New(c.Spec)
		m := model.New(c07Keys, vs.Epoch, adapt.EffDefault(c.Spec), c.Spec.CB)
		isCache := c.Spec.IsCache()
		for j, o := range c.Ops {
			o := o
			isTrav := (o.K == model.MRange || o.K == model.CRange || o.K == model.CItems) && (len(o.Muts) > 0 || o.N > 0 || j == len(c.Ops)-1 || j == len(c.Ops)-3 || j == len(c.Ops)-4)
			if isTrav && (len(o.Muts) > 0 || o.N > 0) {
				before := map[int]model.Ent{}
				for k := range m.Ents {
					if m.Live(k) {
						before[k] = m.Ents[k]
					}
				}
				now0 := vs.NowNS
				res, f := e1Exec(api, &o)
				if f != nil {
					return e1Violation("C07", &c, "scheduler:"+f.Kind, f.Kind, f.Detail, nil)
				}
				if err := checkTraversal(m, before, &o, &res, now0, vs.NowNS, isCache); err != nil {
					return e1Violation("C07", &c, "sequential", "traversal", err.Error(), nil)
				}
				for at := 0; at < len(res.Vis); at++ {
					for _, mu := range o.Muts {
						if mu.At == at {
							mo := mu.Op
							if mu.Cur {
								mo.Key = res.Vis[at].K
							}
							_ = m.Step(&mo, nil)
						}
					}
				}
				continue
			}
			res, f := e1Exec(api, &o)
			if f != nil {
				return e1Violation("C07", &c, "scheduler:"+f.Kind, f.Kind, f.Detail, nil)
			}
			if err := m.Step(&o, &res); err != nil {
				return e1Violation("C07", &c, "sequential", "seq:"+o.K.String(), fmt.Sprintf("%s -> %s: %v", o.String(), res.String(), err), nil)
			}
		}
	}
	return nil
}
