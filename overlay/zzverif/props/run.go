package props

import (
	"fmt"
	"sort"
	"strings"

	"github.com/fufuok/cache/zzverif/adapt"
	"github.com/fufuok/cache/zzverif/lin"
	"github.com/fufuok/cache/zzverif/model"
	"github.com/fufuok/cache/zzverif/vs"
)

// Rec is one recorded call.
type Rec struct {
	Op     model.Op
	Res    model.Res
	Inv    int64
	Ret    int64
	Thread int // -1 prefix, 0.. concurrent, -2 suffix
	Done   bool
	Nows   []int64 // instants read from the ticking clock during the call
	NowRet int64   // ticking clock at return
}

func (r Rec) String() string {
	who := "pre"
	if r.Thread >= 0 {
		who = fmt.Sprintf("T%d ", r.Thread)
	} else if r.Thread == -2 {
		who = "post"
	}
	if !r.Done {
		return fmt.Sprintf("[%d,..] %s %s -> (unfinished)", r.Inv, who, r.Op.String())
	}
	clk := ""
	if len(r.Nows) > 0 {
		clk = " clock"
		for _, n := range r.Nows {
			clk += fmt.Sprintf(" +%d", n-vs.Epoch)
		}
	}
	return fmt.Sprintf("[%d,%d] %s %s -> %s%s", r.Inv, r.Ret, who, r.Op.String(), r.Res.String(), clk)
}

// Outcome of executing a program under one schedule.
type Outcome struct {
	Recs    []Rec
	R       *vs.Result
	Viol    *Violation
	NT      bool
	Classes map[string]bool
	LinNodes int
	m        *model.M // model state after the prefix
}

func isWrite(k model.Kind) bool {
	switch k {
	case model.MLoad, model.MSize, model.MRange, model.CGet, model.CGetExp, model.CGetTTL, model.CRange, model.CItems,
		model.CCount, model.CDefaultExp:
		return false
	}
	return true
}

// mayModify: the call may physically change the container (cache reads lazily
// delete an expired entry), which is what "a modification in flight" means for Size/Count.
func mayModify(k model.Kind) bool {
	switch k {
	case model.CGet, model.CGetExp, model.CGetTTL, model.CRange, model.CItems:
		return true
	}
	return isWrite(k)
}

func isGlobal(k model.Kind) bool {
	switch k {
	case model.MClear, model.CClear, model.MRange, model.CRange, model.CItems, model.CDeleteExpired, model.MSize, model.CCount:
		return true
	}
	return false
}

func mapKinds(spec adapt.Spec) (load, size, rng model.Kind) {
	if spec.IsCache() {
		return model.CGet, model.CCount, model.CRange
	}
	return model.MLoad, model.MSize, model.MRange
}

type execOpts struct {
	budget   int
	noLin    bool // skip the linearizability check (used by engines with their own oracle)
	itemsSfx bool // suffix uses Items() instead of Range for caches
}

// seqDo performs one call of a sequential phase as a one-thread controlled run, so that a
// self-deadlock or endless spin there is a reported failure instead of a hung process.
func seqDo(api adapt.API, op *model.Op) (model.Res, *vs.Failure) {
	res, f, _ := seqDoT(api, op)
	return res, f
}

func seqDoT(api adapt.API, op *model.Op) (model.Res, *vs.Failure, []int64) {
	var res model.Res
	var nows []int64
	r := vs.Run(&vs.NonPreemptive{Order: []int{0}}, 3000000, func() {
		res = adapt.SafeDo(api, op)
		nows = append(nows, vs.Cur().ClockReads...)
	})
	return res, r.Fail, nows
}

// execute runs p under schedule s against a fresh container and checks it.
func execute(p *Program, s *Sched, o execOpts) *Outcome {
	out := &Outcome{Classes: map[string]bool{}}
	viol := func(kind, desc, detail string) *Outcome {
		out.Viol = &Violation{Kind: kind, Desc: desc, Detail: detail, Program: p, Sched: s, Engine: "E2"}
		for _, r := range out.Recs {
			out.Viol.History = append(out.Viol.History, r.String())
		}
		return out
	}
	vs.ClockOn = true
	vs.NowNS = vs.Epoch
	vs.TickOn = p.Tick
	defer func() { vs.TickOn = false }()
	vs.SetLayoutSeed(p.Layout)
	var api adapt.API
	func() {
		defer func() {
			if e := recover(); e != nil {
				out.Viol = &Violation{Kind: "panic", Desc: "constructor-panic", Detail: fmt.Sprint(e), Program: p, Sched: s, Engine: "E2"}
			}
		}()
		api = adapt.New(p.Spec)
	}()
	if out.Viol != nil {
		return out
	}
	defer api.Release()
	m := model.New(p.Hot, vs.Epoch, adapt.EffDefault(p.Spec), p.Spec.CB)
	m.Tick = p.Tick
	noexp := model.NoExpiration
	fill, keep := p.Fill, p.keepEff()
	if p.effFill > 0 {
		fill, keep = p.effFill, p.effKeep
	}
	if fill > 0 {
		bs := model.Op{K: model.HBulkSet, Key: ColdBase, N: fill, Val: ColdVal, D: noexp}
		if r, f := seqDo(api, &bs); f != nil {
			return viol("scheduler:"+f.Kind, f.Kind+":prefix", "filling the container did not terminate: "+f.Detail)
		} else if r.Panic != "" {
			return viol("panic", "panic-in-prefix", r.Panic)
		}
	}
	unfill := func() *Outcome {
		if fill > 0 && keep < fill {
			bd := model.Op{K: model.HBulkDel, Key: ColdBase + keep, N: fill - keep}
			if r, f := seqDo(api, &bd); f != nil {
				return viol("scheduler:"+f.Kind, f.Kind+":prefix", "emptying the container did not terminate: "+f.Detail)
			} else if r.Panic != "" {
				return viol("panic", "panic-in-prefix", r.Panic)
			}
		}
		return nil
	}
	// shrink steering: the hot keys are stored BEFORE the table is emptied, so that the prefix's own
	// deletes stay above the shrink threshold and the shrink is left for the concurrent phase
	if p.Mode != "shrink" {
		if o := unfill(); o != nil {
			return o
		}
	}
	m.ColdN = keep
	m.ColdOn = true
	for i := range p.Pre {
		op := p.Pre[i]
		rec := Rec{Op: op, Thread: -1, Inv: vs.Stamp()}
		if op.K == model.HAdvance {
			vs.NowNS += op.D
		} else {
			var f *vs.Failure
			rec.Res, f, rec.Nows = seqDoT(api, &op)
			if f != nil {
				out.Recs = append(out.Recs, rec)
				return viol("scheduler:"+f.Kind, f.Kind+":"+op.K.String(), fmt.Sprintf("sequential prefix call %s did not return: %s", op.String(), f.Detail))
			}
		}
		rec.Ret = vs.Stamp()
		rec.Done = true
		out.Recs = append(out.Recs, rec)
		if rec.Res.Note != "" && rec.Res.Note != "unsupported" {
			return viol("sequential", "callback-note", rec.Res.Note)
		}
		if p.Tick && op.K == model.HAdvance {
			m.Now = vs.NowNS - op.D // HAdvance adds D itself
		}
		var err error
		if rd := clockReads(rec.Nows); p.Tick && len(rd) > 0 {
			// try every (visibility read, stamping read) combination; commit the first that explains the result
			err = fmt.Errorf("no combination tried")
		search:
			for _, lv := range rd {
				for _, st := range rd {
					c := m.Clone()
					c.At([]int64{lv, st})
					if e2 := c.Step(&op, &out.Recs[len(out.Recs)-1].Res); e2 == nil {
						*m = *c
						err = nil
						break search
					} else {
						err = e2
					}
				}
			}
		} else {
			if p.Tick {
				m.At(nil)
			}
			err = m.Step(&op, &out.Recs[len(out.Recs)-1].Res)
		}
		if err != nil {
			return viol("sequential", "prefix:"+op.K.String(), fmt.Sprintf("prefix op %s: %v", op.String(), err))
		}
	}
	if p.Mode == "shrink" {
		if o := unfill(); o != nil {
			return o
		}
	}
	out.m = m
	g0, s0, _ := api.Stats()
	// concurrent phase
	trecs := make([][]Rec, len(p.Threads))
	fns := make([]func(), len(p.Threads))
	for ti := range p.Threads {
		ti := ti
		ops := p.Threads[ti]
		trecs[ti] = make([]Rec, len(ops))
		fns[ti] = func() {
			th := vs.Cur()
			for i := range ops {
				rec := &trecs[ti][i]
				rec.Op = ops[i]
				rec.Thread = ti
				th.OpIndex = i
				th.ClockReads = th.ClockReads[:0]
				rec.Inv = vs.Stamp()
				rec.Res = adapt.SafeDo(api, &rec.Op)
				rec.Ret = vs.Stamp()
				if len(th.ClockReads) > 0 {
					rec.Nows = append([]int64(nil), th.ClockReads...)
				}
				rec.NowRet = vs.NowNS
				rec.Done = true
			}
			th.OpIndex = -1
		}
	}
	budget := o.budget
	if budget <= 0 {
		budget = 3000000
	}
	res := vs.Run(s.Decider(), budget, fns...)
	out.R = res
	for ti := range trecs {
		for _, r := range trecs[ti] {
			if r.Inv != 0 {
				out.Recs = append(out.Recs, r)
			}
		}
	}
	if res.Fail != nil {
		return viol("scheduler:"+res.Fail.Kind, res.Fail.Kind, res.Fail.Detail)
	}
	g1, s1, _ := api.Stats()
	if g1 > g0 {
		out.Classes["grow-overlapped"] = true
	}
	if s1 > s0 {
		out.Classes["shrink-overlapped"] = true
	}
	if res.Broadcasts > 0 {
		out.Classes["resize-or-clear-completed"] = true
	}
	if res.CondWaits > 0 {
		out.Classes["waited-for-resize"] = true
	}
	if res.Blocks > 0 {
		out.Classes["blocked-on-lock"] = true
	}
	// suffix: read everything back at a quiescent point
	kLoad, kSize, kRange := mapKinds(p.Spec)
	if o.itemsSfx && p.Spec.IsCache() {
		kRange = model.CItems
	}
	var sfxFail *vs.Failure
	var sfxOp model.Op
	sfx := func(op model.Op) *Rec {
		rec := Rec{Op: op, Thread: -2, Inv: vs.Stamp()}
		var f *vs.Failure
		rec.Res, f, rec.Nows = seqDoT(api, &op)
		rec.NowRet = vs.NowNS
		if f != nil && sfxFail == nil {
			sfxFail, sfxOp = f, op
		}
		rec.Ret = vs.Stamp()
		rec.Done = true
		out.Recs = append(out.Recs, rec)
		return &out.Recs[len(out.Recs)-1]
	}
	sizeRec := *sfx(model.Op{K: kSize})
	rangeRec := *sfx(model.Op{K: kRange})
	hotHits := 0
	for k := 0; k < p.Hot; k++ {
		if r := sfx(model.Op{K: kLoad, Key: k}); r.Res.OK {
			hotHits++
		}
	}
	coldHits, coldWrong := 0, 0
	if p.keepEff() > 0 {
		bg := model.Op{K: model.HBulkGet, Key: ColdBase, N: p.keepEff()}
		r, f := seqDo(api, &bg)
		if f != nil && sfxFail == nil {
			sfxFail, sfxOp = f, bg
		}
		if sfxFail != nil {
			return viol("scheduler:"+sfxFail.Kind, sfxFail.Kind+":quiescent-"+sfxOp.K.String(), fmt.Sprintf("quiescent read-back call %s did not return (a lock was left held?): %s", sfxOp.String(), sfxFail.Detail))
		}
		if r.Panic != "" {
			return viol("panic", "panic-in-suffix", r.Panic)
		}
		for _, kv := range r.Vis {
			if kv.V == ColdVal+(kv.K-ColdBase) {
				coldHits++
			} else {
				coldWrong++
			}
		}
		if coldWrong > 0 {
			return viol("direct", "cold-key-wrong-value", fmt.Sprintf("%d cold keys read back with a value never stored under them: %v", coldWrong, r.Vis))
		}
		obs := int64(-1)
		if coldHits == p.keepEff() {
			obs = 1
		} else if coldHits == 0 {
			obs = 0
		}
		if obs < 0 {
			return viol("direct", "cold-keys-partially-lost", fmt.Sprintf("%d of %d untouched keys stored before the concurrent phase are still present at quiescence (must be all, or none after a Clear)", coldHits, p.keepEff()))
		}
		rec := Rec{Op: model.Op{K: model.PColdLoad}, Res: model.Res{T: obs}, Thread: -2, Inv: vs.Stamp(), Done: true}
		rec.Ret = vs.Stamp()
		out.Recs = append(out.Recs, rec)
	}
	if sfxFail != nil {
		return viol("scheduler:"+sfxFail.Kind, sfxFail.Kind+":quiescent-"+sfxOp.K.String(), fmt.Sprintf("quiescent read-back call %s did not return (a lock was left held?): %s", sfxOp.String(), sfxFail.Detail))
	}
	if stray := adapt.Stray(api); len(stray) > 0 {
		return viol("direct", "stray-callback", fmt.Sprintf("evicted callback fired outside any call: %v", stray))
	}
	for _, r := range out.Recs {
		if r.Res.Panic != "" {
			return viol("panic", "panic:"+r.Op.K.String(), fmt.Sprintf("%s panicked: %s", r.Op.String(), r.Res.Panic))
		}
		if r.Res.Note != "" && r.Res.Note != "unsupported" {
			return viol("direct", "callback-note", fmt.Sprintf("%s: %s", r.Op.String(), r.Res.Note))
		}
	}
	// direct quiescent-count check (C08): Size == Range visits == successful loads
	if !p.Spec.IsCache() {
		nv := len(rangeRec.Res.Vis)
		nl := hotHits + coldHits
		if int(sizeRec.Res.T) != nv || nv != nl {
			return viol("direct", "quiescent-size-mismatch", fmt.Sprintf("at quiescence Size()=%d, Range visited %d pairs, %d keys of the universe load successfully", sizeRec.Res.T, nv, nl))
		}
	} else {
		nv := len(rangeRec.Res.Vis)
		if int(sizeRec.Res.T) < nv {
			return viol("direct", "count-under-reports", fmt.Sprintf("at quiescence Count()=%d but Range/Items shows %d live entries", sizeRec.Res.T, nv))
		}
	}
	// non-triviality
	out.NT = nonTrivial(out)
	if o.noLin {
		return out
	}
	finishLin(p, s, out)
	return out
}

// finishLin builds the history of an executed outcome and checks linearizability.
func finishLin(p *Program, s *Sched, out *Outcome) {
	viol := func(kind, desc, detail string) {
		out.Viol = &Violation{Kind: kind, Desc: desc, Detail: detail, Program: p, Sched: s, Engine: "E2"}
		for _, r := range out.Recs {
			out.Viol.History = append(out.Viol.History, r.String())
		}
	}
	evs, dv := buildHistory(p, out.Recs)
	if dv != "" {
		viol("direct", dv[:strings.Index(dv+":", ":")], dv)
		return
	}
	v := lin.Check(out.m, evs)
	out.LinNodes = v.Nodes
	if !v.OK {
		if strings.HasPrefix(v.Explain, "search budget") || strings.HasPrefix(v.Explain, "history too long") {
			out.Classes["lin-inconclusive"] = true
			return
		}
		viol("linearizability", linDesc(v.Explain), v.Explain)
	}
}

// linDesc derives a coarse descriptor from the checker's explanation (first impossible candidate's op kind).
func linDesc(ex string) string {
	i := strings.Index(ex, "is impossible there:\n")
	if i < 0 {
		return "lin"
	}
	rest := strings.TrimSpace(ex[i+len("is impossible there:\n"):])
	if j := strings.Index(rest, "\n"); j >= 0 {
		rest = rest[:j]
	}
	// "#7 Load(k0): ..." -> Load
	if j := strings.Index(rest, " "); j >= 0 {
		rest = rest[j+1:]
	}
	if j := strings.IndexAny(rest, "(:"); j >= 0 {
		rest = rest[:j]
	}
	return "lin:" + rest
}

func overlap(a, b *Rec) bool { return a.Inv < b.Ret && b.Inv < a.Ret }

func nonTrivial(out *Outcome) bool {
	if out.R == nil || out.R.Switches == 0 {
		return false
	}
	var cs []*Rec
	for i := range out.Recs {
		if out.Recs[i].Thread >= 0 {
			cs = append(cs, &out.Recs[i])
		}
	}
	for i := 0; i < len(cs); i++ {
		for j := i + 1; j < len(cs); j++ {
			a, b := cs[i], cs[j]
			if a.Thread == b.Thread || !overlap(a, b) {
				continue
			}
			if !isWrite(a.Op.K) && !isWrite(b.Op.K) {
				continue
			}
			if a.Op.Key == b.Op.Key || isGlobal(a.Op.K) || isGlobal(b.Op.K) {
				return true
			}
		}
	}
	return false
}

// buildHistory turns records into checker events, decomposing traversals and
// DeleteExpired into per-key pseudo operations. A non-empty string is a direct
// violation "descriptor: text".
func buildHistory(p *Program, recs []Rec) ([]lin.Ev, string) {
	var evs []lin.Ev
	clearOverlaps := func(r *Rec) bool {
		for i := range recs {
			c := &recs[i]
			if (c.Op.K == model.MClear || c.Op.K == model.CClear) && c.Thread >= 0 && overlap(c, r) {
				return true
			}
		}
		return false
	}
	for i := range recs {
		r := &recs[i]
		if r.Thread == -1 {
			continue // prefix already applied to the model
		}
		res := &recs[i].Res
		switch r.Op.K {
		case model.MRange, model.CRange, model.CItems:
			parent := r.Op.String()
			seen := map[int]int{}
			cold := 0
			for _, kv := range res.Vis {
				if _, dup := seen[kv.K]; dup {
					return nil, fmt.Sprintf("duplicate-visit: %s visited key k%d twice (%v)", parent, kv.K, res.Vis)
				}
				seen[kv.K] = kv.V
				switch {
				case kv.K >= 0 && kv.K < p.Hot:
				case kv.K >= ColdBase && kv.K < ColdBase+p.keepEff():
					if kv.V != ColdVal+(kv.K-ColdBase) {
						return nil, fmt.Sprintf("phantom-value: %s showed (k%d,%d), a value never stored under that key", parent, kv.K, kv.V)
					}
					cold++
				default:
					return nil, fmt.Sprintf("phantom-key: %s showed key k%d which is not in the container's universe", parent, kv.K)
				}
			}
			stopped := r.Op.K != model.CItems && r.Op.N > 0
			if stopped && len(res.Vis) > r.Op.N {
				return nil, fmt.Sprintf("range-not-stopped: %s made %d visitor calls", parent, len(res.Vis))
			}
			for k := 0; k < p.Hot; k++ {
				v, ok := seen[k]
				if !ok && stopped {
					continue
				}
				evs = append(evs, lin.Ev{Op: model.Op{K: model.PVisitKey, Key: k}, Res: &model.Res{V: v, OK: ok}, Inv: r.Inv, Ret: r.Ret, Thread: r.Thread, Parent: parent, Nows: spanNow(r)})
			}
			if p.keepEff() > 0 && !stopped {
				switch {
				case cold == p.keepEff():
					evs = append(evs, lin.Ev{Op: model.Op{K: model.PColdVisit}, Res: &model.Res{T: 1}, Inv: r.Inv, Ret: r.Ret, Thread: r.Thread, Parent: parent})
				case cold == 0:
					evs = append(evs, lin.Ev{Op: model.Op{K: model.PColdVisit}, Res: &model.Res{T: 0}, Inv: r.Inv, Ret: r.Ret, Thread: r.Thread, Parent: parent})
				default:
					if !clearOverlaps(r) {
						return nil, fmt.Sprintf("stable-key-skipped: %s visited only %d of %d keys that were present and untouched for the whole traversal (no Clear overlapped it)", parent, cold, p.keepEff())
					}
				}
			}
		case model.CDeleteExpired:
			parent := r.Op.String()
			fired := map[int]int{}
			twice := map[int]bool{}
			for _, kv := range res.Ev {
				if pv, dup := fired[kv.K]; dup {
					if pv == kv.V {
						return nil, fmt.Sprintf("double-callback: one DeleteExpired fired the callback twice for the same stored value (k%d,%d) (%v)", kv.K, kv.V, res.Ev)
					}
					twice[kv.K] = true // two different stored values of one key removed by one pass: not decomposable, left to the global at-most-once rule
				}
				if kv.K < 0 || kv.K >= p.Hot {
					return nil, fmt.Sprintf("callback-for-unexpired: DeleteExpired fired (k%d,%d); that key never had an expiring entry", kv.K, kv.V)
				}
				fired[kv.K] = kv.V
			}
			for k := 0; k < p.Hot; k++ {
				if twice[k] {
					continue
				}
				v, ok := fired[k]
				evs = append(evs, lin.Ev{Op: model.Op{K: model.PSweepKey, Key: k}, Res: &model.Res{V: v, OK: ok}, Inv: r.Inv, Ret: r.Ret, Thread: r.Thread, Parent: parent, Nows: spanNow(r), CBAmbig: callbackSwapOverlaps(recs, r), CBCands: callbackCands(p, recs, r)})
			}
		case model.MSize, model.CCount:
			// C08: Size/Count is exact only while no modifying call is in flight. A concurrent
			// Size that overlaps a writer is only bounds-checked.
			racy := false
			if r.Thread >= 0 {
				for j := range recs {
					c := &recs[j]
					if c.Thread >= 0 && c.Thread != r.Thread && mayModify(c.Op.K) && overlap(c, r) {
						racy = true
						break
					}
				}
			}
			if racy {
				// the striped counter is updated after the slot write, so a racing Size may be off by
				// the number of modifications in flight (it can even be transiently negative)
				w := 0
				for j := range recs {
					c := &recs[j]
					if c.Thread >= 0 && c.Thread != r.Thread && mayModify(c.Op.K) && overlap(c, r) {
						w++
					}
				}
				if int(res.T) < -w || int(res.T) > p.Hot+p.keepEff()+w {
					return nil, fmt.Sprintf("size-out-of-bounds: %s returned %d with a universe of %d keys and %d modifications in flight", r.Op.String(), res.T, p.Hot+p.keepEff(), w)
				}
				continue
			}
			evs = append(evs, lin.Ev{Op: r.Op, Res: res, Inv: r.Inv, Ret: r.Ret, Thread: r.Thread})
		default:
			var rp *model.Res
			ret := r.Ret
			if r.Done {
				rp = res
			} else {
				ret = lin.Pending
			}
			ev := lin.Ev{Op: r.Op, Res: rp, Inv: r.Inv, Ret: ret, Thread: r.Thread, Reads: clockReads(r.Nows)}
			if r.Op.K == model.CDelete || r.Op.K == model.CGetAndDelete {
				ev.CBAmbig = callbackSwapOverlaps(recs, r)
				if ev.CBAmbig {
					ev.CBCands = callbackCands(p, recs, r)
				}
			}
			if usesDefault(&r.Op) {
				for j := range recs {
					c := &recs[j]
					if c.Op.K == model.CSetDefaultExp && c.Thread >= 0 && c.Thread != r.Thread && overlap(c, r) {
						ev.DefCands = append(ev.DefCands, c.Op.D)
					}
				}
				if len(ev.DefCands) > 0 {
					// ... and the default that was in force when the call began
					ev.DefCands = append(ev.DefCands, defaultBefore(p, recs, r))
				}
			}
			evs = append(evs, ev)
		}
	}
	// each stored value reported to the evicted callback at most once over the whole history
	firedOnce := map[model.KV]string{}
	for i := range recs {
		for _, kv := range recs[i].Res.Ev {
			if kv.K >= ColdBase {
				continue
			}
			if prev, dup := firedOnce[kv]; dup && recs[i].Thread != -1 {
				return nil, fmt.Sprintf("double-callback: stored value (k%d,%d) was reported to the evicted callback by %s and again by %s", kv.K, kv.V, prev, recs[i].Op.String())
			}
			firedOnce[kv] = recs[i].Op.String()
		}
	}
	return evs, ""
}

// clockReads returns the distinct instants a call read from the ticking clock (at most four: the
// first two, a middle one and the last). Which read a call uses for which decision — visibility of
// the entry it found, stamping of a new expiry — is an implementation detail the properties do not
// pin, so the checker accepts any combination.
func clockReads(reads []int64) []int64 {
	if len(reads) <= 4 {
		return reads
	}
	return []int64{reads[0], reads[1], reads[len(reads)/2], reads[len(reads)-1]}
}

// callbackSwapOverlaps: a SetEvictedCallback of another thread overlaps r (C06: the call may use
// the callback in force at any moment of the call).
// callbackCands: every callback setting that may have been in force at some moment of r - the one at its invocation
// (constructor setting or the last SetEvictedCallback completed before r began; several when those overlap each
// other) and every SetEvictedCallback overlapping r.
func callbackCands(p *Program, recs []Rec, r *Rec) []model.CBState {
	st := func(c *Rec) model.CBState {
		s := model.CBState{On: c.Op.On}
		if c.Op.On {
			s.Tag = 1
			if c.Op.N == 2 {
				s.Tag = 2
			}
		}
		return s
	}
	var out []model.CBState
	lastRet := int64(-1)
	for j := range recs {
		c := &recs[j]
		if c.Op.K == model.CSetCallback && c.Done && c.Ret < r.Inv && c.Ret > lastRet {
			lastRet = c.Ret
		}
	}
	if lastRet < 0 {
		cs := model.CBState{On: p.Spec.CB}
		if cs.On {
			cs.Tag = 1
		}
		out = append(out, cs)
	}
	for j := range recs {
		c := &recs[j]
		if c.Op.K != model.CSetCallback || c == r {
			continue
		}
		switch {
		case c.Done && c.Ret < r.Inv:
			// completed before r began: in force at r's invocation unless definitely overwritten by then
			over := false
			for i := range recs {
				c2 := &recs[i]
				if c2.Op.K == model.CSetCallback && c2.Done && c2.Inv > c.Ret && c2.Ret < r.Inv {
					over = true
					break
				}
			}
			if !over {
				out = append(out, st(c))
			}
		case !r.Done || c.Inv < r.Ret:
			out = append(out, st(c)) // overlaps r
		}
	}
	return out
}

func callbackSwapOverlaps(recs []Rec, r *Rec) bool {
	for j := range recs {
		c := &recs[j]
		if c.Op.K == model.CSetCallback && c.Thread >= 0 && c.Thread != r.Thread && overlap(c, r) {
			return true
		}
	}
	return false
}

// usesDefault: the call resolves the DefaultExpiration sentinel.
func usesDefault(o *model.Op) bool {
	switch o.K {
	case model.CSetDefault:
		return true
	case model.CSet, model.CGetOrSet, model.CGetAndSet, model.CGetAndRefresh, model.CGetOrCompute, model.CCompute:
		return o.D == model.DefaultExpiration
	}
	return false
}

// defaultBefore returns the default expiration in force when r was invoked as far as completed
// SetDefaultExpiration calls determine it (the latest one that returned before r began).
func defaultBefore(p *Program, recs []Rec, r *Rec) int64 {
	d := adapt.EffDefault(p.Spec)
	best := int64(-1)
	for j := range recs {
		c := &recs[j]
		if c.Op.K == model.CSetDefaultExp && c.Done && c.Ret < r.Inv && c.Ret > best {
			best, d = c.Ret, c.Op.D
		}
	}
	return d
}

// spanNow: traversals and sweeps may decide by any instant between their first clock read and their return.
func spanNow(r *Rec) []int64 {
	if len(r.Nows) == 0 {
		return nil
	}
	end := r.NowRet
	if end < r.Nows[0] {
		end = r.Nows[0]
	}
	return []int64{r.Nows[0], end}
}

// historySig is a canonical signature of a history (results + precedence
// structure); equal signatures have equal verdicts.
func historySig(recs []Rec) string {
	type st struct {
		s   int64
		idx int
		ret bool
	}
	var all []st
	for i := range recs {
		if recs[i].Thread == -1 {
			continue
		}
		all = append(all, st{recs[i].Inv, i, false})
		if recs[i].Done {
			all = append(all, st{recs[i].Ret, i, true})
		}
	}
	sort.Slice(all, func(i, j int) bool { return all[i].s < all[j].s })
	var sb strings.Builder
	for _, a := range all {
		if a.ret {
			fmt.Fprintf(&sb, "r%d;", a.idx)
		} else {
			r := &recs[a.idx]
			fmt.Fprintf(&sb, "i%d:%d:%s=%+v@%v;", a.idx, r.Thread, r.Op.String(), r.Res, r.Nows)
		}
	}
	return sb.String()
}
