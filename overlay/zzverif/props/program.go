package props

import (
	"encoding/json"
	"fmt"
	"strings"

	"github.com/fufuok/cache/zzverif/adapt"
	"github.com/fufuok/cache/zzverif/model"
	"github.com/fufuok/cache/zzverif/vs"
)

const (
	ColdBase = 1000   // cold key ids start here
	ColdVal  = 100000 // value of cold key i is ColdVal+i
)

// Program is one generated concurrent scenario: a container, a sequential
// prefix, 2..4 thread programs and (implicitly) a quiescent suffix that reads
// everything back.
type Program struct {
	Spec    adapt.Spec   `json:"spec"`
	Layout  uint64       `json:"layout"`  // seed of the table hash seeds
	Hot     int          `json:"hot"`     // hot keys are 0..Hot-1
	Fill    int          `json:"fill"`    // cold keys stored by the prefix
	Keep    int          `json:"keep"`    // cold keys left after the prefix deleted Fill-Keep of them again
	Pre     []model.Op   `json:"pre"`     // sequential prefix on hot keys (and clock advances)
	Threads [][]model.Op `json:"threads"` // concurrent phase
	Seed    uint64       `json:"seed"`    // stream for sampled schedules (PCT d>=3, random walks)
	// Mode "grow": the fill is raised (by probing an identically seeded container) until the
	// first insert of absent k0 triggers a table grow. Mode "shrink": the fill is raised until the
	// table has grown once, then emptied down to Keep so that deleting hot keys triggers the shrink.
	Mode string `json:"mode,omitempty"`
	// Tick: the virtual clock advances by one tick on every read (time passes between the steps
	// of a call); the model decides liveness by a call's first clock read and stamps by its last.
	Tick bool `json:"tick,omitempty"`
	// Collide (string Map / Cache): hot keys 0 and 2 are strings that share their root bucket AND
	// their 20-bit top hash in the fresh 32-bucket table (found by search in resolve()).
	Collide bool `json:"collide,omitempty"`

	effFill, effKeep int
}

func (p *Program) keepEff() int {
	if p.effFill > 0 {
		return p.effKeep
	}
	return p.Keep
}

func (p *Program) Text() string {
	var sb strings.Builder
	fmt.Fprintf(&sb, "container: %s; layout seed %#x; hot keys k0..k%d; cold keys %d (of %d filled) mode=%q effective fill %d ticking clock=%v top-hash-colliding k0/k2=%v\n", p.Spec.String(), p.Layout, p.Hot-1, p.Keep, p.Fill, p.Mode, p.effFill, p.Tick, len(p.Spec.Alias) > 0)
	if len(p.Pre) > 0 {
		sb.WriteString("prefix:")
		for _, o := range p.Pre {
			sb.WriteString(" " + o.String() + ";")
		}
		sb.WriteString("\n")
	}
	for i, th := range p.Threads {
		fmt.Fprintf(&sb, "T%d:", i)
		for _, o := range th {
			sb.WriteString(" " + o.String() + ";")
		}
		sb.WriteString("\n")
	}
	return sb.String()
}

func (p *Program) Canon() string {
	b, _ := json.Marshal(p)
	return string(b)
}

// Sched is an explicit schedule (data, so it can be generated, shrunk, stored
// and replayed).
type Sched struct {
	Kind    string      `json:"kind"` // np | pct | rw | stall
	Order   []int       `json:"order,omitempty"`
	Prio    []int       `json:"prio,omitempty"`
	Changes []vs.Change `json:"changes,omitempty"`
	Seed    uint64      `json:"seed,omitempty"`
	Den     uint64      `json:"den,omitempty"`
	Park    int         `json:"park,omitempty"`
	Max     int         `json:"max,omitempty"`
}

func (s Sched) String() string {
	switch s.Kind {
	case "np":
		return fmt.Sprintf("non-preemptive order %v", s.Order)
	case "pct":
		return fmt.Sprintf("priorities %v, change points %v", s.Prio, s.Changes)
	case "rw":
		return fmt.Sprintf("random walk seed %#x switch 1/%d", s.Seed, s.Den)
	case "stall":
		return fmt.Sprintf("writer stalled at its point %d, reader alone (bound %d own steps)", s.Park, s.Max)
	}
	return s.Kind
}

func (s Sched) Decider() vs.Decider {
	switch s.Kind {
	case "np":
		return &vs.NonPreemptive{Order: s.Order}
	case "pct":
		return &vs.PCT{Prio: s.Prio, Changes: s.Changes}
	case "rw":
		return &vs.RandomWalk{State: s.Seed, Den: s.Den}
	case "stall":
		return &vs.Stall{ParkStep: s.Park, MaxSteps: s.Max}
	}
	panic("unknown schedule kind " + s.Kind)
}

// prioFromOrder: order[0] runs first.
func prioFromOrder(order []int) []int {
	p := make([]int, len(order))
	for rank, t := range order {
		p[t] = len(order) - rank
	}
	return p
}

// Violation is a failed case, self-contained for the replay file.
type Violation struct {
	Property string   `json:"property"`
	Kind     string   `json:"kind"`       // sequential | scheduler:<kind> | direct | linearizability | panic
	Desc     string   `json:"descriptor"` // short structured descriptor (known-finding matching)
	Detail   string   `json:"detail"`
	Program  *Program `json:"program,omitempty"`
	Sched    *Sched   `json:"schedule,omitempty"`
	History  []string `json:"history,omitempty"`
	Engine   string   `json:"engine"`
	Extra    json.RawMessage `json:"extra,omitempty"`
}

func (v *Violation) Short() string {
	d := v.Detail
	if len(d) > 3000 {
		d = d[:3000] + "..."
	}
	return fmt.Sprintf("%s [%s]: %s", v.Kind, v.Desc, d)
}
