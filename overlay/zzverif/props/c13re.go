package props

import (
	"encoding/json"
	"fmt"
	"strings"

	"github.com/fufuok/cache/zzverif/adapt"
	"github.com/fufuok/cache/zzverif/model"
	"github.com/fufuok/cache/zzverif/stats"
	"github.com/fufuok/cache/zzverif/vs"
	"pgregory.net/rapid"
)

// E2R (C13): "functions the library invokes without holding internal locks - the Range/Items visitor and
// the evicted callback - may themselves call ANY method of the same container". The evicted callback of
// the generated cache re-enters with calls drawn from the whole vocabulary (the i-th invocation performs
// ReOps[i mod n], nesting capped at two levels) and Range visitors do the same through Op.Muts, while one
// to three threads run Delete / GetAndDelete / DeleteExpired / Clear / Set ... on the same few keys.
// The effects of re-entrant calls are not modelled, so the oracle is the one C13 states: every call returns
// (scheduler: no deadlock, no spinning, no panic), a quiescent read-back afterwards returns too, and every
// notification the callback received names a value that was stored under that key at some time.

type ReProgram struct {
	Spec    adapt.Spec   `json:"spec"`
	Layout  uint64       `json:"layout_seed"`
	Pre     []model.Op   `json:"pre"`
	Threads [][]model.Op `json:"threads"`
	Seed    uint64       `json:"sched_seed"`
}

func (p *ReProgram) Text() string {
	var sb strings.Builder
	fmt.Fprintf(&sb, "  container: %s\n  callback re-enters with:", p.Spec.String())
	for _, o := range p.Spec.ReOps {
		fmt.Fprintf(&sb, " %s;", o.String())
	}
	sb.WriteString("\n  prefix:")
	for _, o := range p.Pre {
		fmt.Fprintf(&sb, " %s;", o.String())
	}
	sb.WriteString("\n")
	for t, ops := range p.Threads {
		fmt.Fprintf(&sb, "  T%d:", t)
		for _, o := range ops {
			fmt.Fprintf(&sb, " %s;", o.String())
		}
		sb.WriteString("\n")
	}
	return sb.String()
}

const reHot = 4

var reKinds = []model.Kind{model.CSet, model.CSetDefault, model.CGet, model.CGetExp, model.CGetTTL, model.CGetOrSet, model.CGetAndSet, model.CGetAndRefresh,
	model.CGetOrCompute, model.CCompute, model.CGetAndDelete, model.CDelete, model.CDeleteExpired, model.CDeleteExpired, model.CClear, model.CCount,
	model.CItems, model.CRange, model.CSetCallback, model.CSetDefaultExp, model.CDefaultExp}

func genReOp(rt *rapid.T, next *int, label string) model.Op {
	o := model.Op{K: pick(rt, reKinds, label), Key: irange(rt, 0, reHot-1, label+"Key")}
	switch o.K {
	case model.CSet, model.CGetOrSet, model.CGetAndSet, model.CGetOrCompute, model.CCompute:
		*next++
		o.Val = *next
		o.D = pick(rt, []int64{model.NoExpiration, model.DefaultExpiration, 5, 50}, label+"TTL")
		if o.K == model.CCompute {
			o.Fn = uint8(irange(rt, 0, 3, label+"Fn"))
		}
	case model.CSetDefault:
		*next++
		o.Val = *next
	case model.CGetAndRefresh:
		o.D = pick(rt, []int64{model.NoExpiration, 5, 50}, label+"TTL")
	case model.CSetCallback:
		o.On = true // keep a callback installed: the point is that it keeps re-entering
		o.N = irange(rt, 1, 2, label+"Which")
	case model.CSetDefaultExp:
		o.D = pick(rt, []int64{model.NoExpiration, 7, 40}, label+"Def")
	}
	return o
}

func genReProgram(rt *rapid.T) *ReProgram {
	p := &ReProgram{}
	p.Spec = adapt.Spec{Kind: pick(rt, []string{"cache", "cacheof"}, "container"), CB: true}
	if p.Spec.Kind == "cacheof" {
		p.Spec.Key = pick(rt, []string{"int", "string"}, "keytype")
	}
	if rapid.Bool().Draw(rt, "ctorDefault") {
		p.Spec.Ctor = "default"
		p.Spec.DefExp = 40
	}
	p.Layout = rapid.Uint64().Draw(rt, "layoutSeed")
	p.Seed = rapid.Uint64().Draw(rt, "schedSeed")
	next := 100
	for i, n := 0, irange(rt, 1, 3, "nReOps"); i < n; i++ {
		p.Spec.ReOps = append(p.Spec.ReOps, genReOp(rt, &next, "reOp"))
	}
	// prefix: the hot keys hold entries, some of which have expired (not cleaned) when the threads start
	for k := 0; k < reHot; k++ {
		next++
		p.Pre = append(p.Pre, model.Op{K: model.CSet, Key: k, Val: next, D: pick(rt, []int64{model.NoExpiration, 3, 3, 30}, "preTTL")})
	}
	if n := irange(rt, 0, 40, "bulk"); n > 8 {
		p.Pre = append(p.Pre, model.Op{K: model.HBulkSet, Key: ColdBase, N: n, Val: ColdVal, D: pick(rt, []int64{model.NoExpiration, 4}, "bulkTTL")})
	}
	p.Pre = append(p.Pre, model.Op{K: model.HAdvance, D: int64(irange(rt, 0, 10, "adv"))})
	removers := []model.Kind{model.CDelete, model.CGetAndDelete, model.CDeleteExpired}
	for t, nt := 0, irange(rt, 1, 3, "threads"); t < nt; t++ {
		var ops []model.Op
		for i, n := 0, irange(rt, 1, 4, "nops"); i < n; i++ {
			var o model.Op
			if irange(rt, 0, 9, "remover") < 5 {
				o = model.Op{K: pick(rt, removers, "removerKind"), Key: irange(rt, 0, reHot-1, "key")}
			} else {
				o = genReOp(rt, &next, "op")
			}
			if o.K == model.CRange || o.K == model.CItems {
				// the visitor re-enters too
				if o.K == model.CRange && irange(rt, 0, 2, "visitorReenters") > 0 {
					for j, m := 0, irange(rt, 1, 2, "nMuts"); j < m; j++ {
						mo := genReOp(rt, &next, "visitOp")
						if mo.K == model.CRange || mo.K == model.CItems {
							mo.K = model.CCount
						}
						o.Muts = append(o.Muts, model.Mut{At: irange(rt, 0, 3, "visitAt"), Op: mo, Cur: rapid.Bool().Draw(rt, "visitCur")})
					}
				}
			}
			ops = append(ops, o)
			if irange(rt, 0, 5, "advInThread") == 0 {
				ops = append(ops, model.Op{K: model.HAdvance, D: int64(irange(rt, 1, 30, "advT"))})
			}
		}
		p.Threads = append(p.Threads, ops)
	}
	return p
}

type reLogger interface{ ReLog() []string }

// runRe executes p under s. Returns (violation, number of re-entrant calls made, visitor calls made).
func runRe(p *ReProgram, s *Sched) (*Violation, int) {
	vs.ClockOn = true
	vs.NowNS = vs.Epoch
	vs.TickOn = false
	vs.SetLayoutSeed(p.Layout)
	api := adapt.New(p.Spec)
	defer api.Release()
	var hist []string
	mk := func(kind, desc, detail string) *Violation {
		b, _ := json.Marshal(p)
		v := &Violation{Property: "C13", Kind: kind, Desc: desc, Detail: detail, Engine: "E2R", Extra: b, Sched: s, History: hist}
		if rl, ok := api.(reLogger); ok {
			for _, l := range rl.ReLog() {
				v.History = append(v.History, "    "+l)
			}
		}
		return v
	}
	stored := map[[2]int]bool{} // (key,value) pairs any call of the program may store
	note := func(o *model.Op) {
		if o.Val != 0 {
			stored[[2]int{o.Key, o.Val}] = true
		}
		for i := range o.Muts {
			mo := &o.Muts[i].Op
			if mo.Val != 0 {
				for k := 0; k < reHot; k++ {
					stored[[2]int{k, mo.Val}] = true // Cur: resolved at run time
				}
				stored[[2]int{mo.Key, mo.Val}] = true
			}
		}
	}
	for i := range p.Spec.ReOps {
		note(&p.Spec.ReOps[i])
	}
	checkEv := func(what string, r *model.Res) *Violation {
		if r.Panic != "" {
			return mk("panic", "panic:"+what, fmt.Sprintf("%s panicked: %s", what, r.Panic))
		}
		for _, kv := range r.Ev {
			if kv.K >= ColdBase {
				continue
			}
			if !stored[[2]int{kv.K, kv.V}] {
				return mk("direct", "callback-unknown-pair", fmt.Sprintf("%s: the evicted callback received (k%d,%d), a pair no call ever stored", what, kv.K, kv.V))
			}
		}
		return nil
	}
	for i := range p.Pre {
		op := p.Pre[i]
		note(&op)
		if op.K == model.HAdvance {
			vs.NowNS += op.D
			continue
		}
		r, f := seqDo(api, &op)
		hist = append(hist, "pre "+op.String())
		if f != nil {
			return mk("scheduler:"+f.Kind, f.Kind+":prefix", fmt.Sprintf("sequential prefix call %s did not return: %s", op.String(), f.Detail)), 0
		}
		if v := checkEv(op.String(), &r); v != nil {
			return v, 0
		}
	}
	res := make([][]model.Res, len(p.Threads))
	fns := make([]func(), len(p.Threads))
	for ti := range p.Threads {
		ti := ti
		ops := p.Threads[ti]
		for i := range ops {
			note(&ops[i])
		}
		res[ti] = make([]model.Res, len(ops))
		fns[ti] = func() {
			th := vs.Cur()
			for i := range ops {
				th.OpIndex = i
				res[ti][i] = adapt.SafeDo(api, &ops[i])
			}
			th.OpIndex = -1
		}
	}
	r := vs.Run(s.Decider(), 4000000, fns...)
	for ti := range p.Threads {
		for i := range p.Threads[ti] {
			hist = append(hist, fmt.Sprintf("T%d %s", ti, p.Threads[ti][i].String()))
		}
	}
	nre := 0
	if rl, ok := api.(reLogger); ok {
		nre = len(rl.ReLog())
	}
	if r.Fail != nil {
		return mk("scheduler:"+r.Fail.Kind, r.Fail.Kind, "with callbacks / visitors that call back into the cache: "+r.Fail.Detail), nre
	}
	for ti := range res {
		for i := range res[ti] {
			if v := checkEv(fmt.Sprintf("T%d %s", ti, p.Threads[ti][i].String()), &res[ti][i]); v != nil {
				return v, nre
			}
		}
	}
	// quiescent read-back: every lock must have been released
	for _, op := range []model.Op{{K: model.CItems}, {K: model.CCount}, {K: model.CGet, Key: 0}, {K: model.CGet, Key: 1}, {K: model.CGet, Key: 2}, {K: model.CGet, Key: 3},
		{K: model.CSet, Key: 0, Val: 1, D: model.NoExpiration}, {K: model.CDeleteExpired}, {K: model.CClear}, {K: model.CCount}} {
		op := op
		note(&op)
		rr, f := seqDo(api, &op)
		if f != nil {
			return mk("scheduler:"+f.Kind, f.Kind+":suffix", fmt.Sprintf("after the concurrent phase, %s did not return (a lock was left held?): %s", op.String(), f.Detail)), nre
		}
		if v := checkEv("suffix "+op.String(), &rr); v != nil {
			return v, nre
		}
		if op.K == model.CCount && rr.T < 0 {
			return mk("direct", "negative-count", fmt.Sprintf("quiescent Count() = %d", rr.T)), nre
		}
	}
	return nil, nre
}

func reSchedules(p *ReProgram, n int) []*Sched {
	nt := len(p.Threads)
	var out []*Sched
	for r := 0; r < nt; r++ {
		ord := make([]int, nt)
		for i := range ord {
			ord[i] = (r + i) % nt
		}
		out = append(out, &Sched{Kind: "np", Order: ord})
	}
	x := p.Seed | 1
	for len(out) < n && nt > 1 {
		x = x*6364136223846793005 + 1442695040888963407
		out = append(out, &Sched{Kind: "rw", Seed: x, Den: []uint64{3, 8, 24}[len(out)%3]})
	}
	return out
}

func runC13Reenter(rt *rapid.T) {
	p := genReProgram(rt)
	n := 6
	if tier() == "thorough" {
		n = 14
	}
	execs, reMax := 0, 0
	for _, s := range reSchedules(p, n) {
		v, nre := runRe(p, s)
		execs++
		stats.Inc("executions")
		if nre > reMax {
			reMax = nre
		}
		if v != nil {
			writeReplay(v)
			rt.Fatalf("VIOLATION %s\nprogram:\n%sschedule: %s\n%s", v.Short(), p.Text(), s.String(), strings.Join(v.History, "\n"))
		}
	}
	stats.Inc("cases")
	stats.Add("reentrant_calls", int64(reMax))
	if reMax > 0 {
		b, _ := json.Marshal(p)
		stats.NonTrivial(stats.Hash64(string(b)))
		stats.Inc("class_callback_reentered")
	}
	for _, o := range p.Spec.ReOps {
		stats.Inc("reop_" + o.K.String())
	}
	stats.Sample(map[string]interface{}{"reentry_program": p.Text(), "schedules": execs, "reentrant_calls": reMax})
}

func replayRe(v *Violation) *Violation {
	var p ReProgram
	if err := json.Unmarshal(v.Extra, &p); err != nil {
		return nil
	}
	if v.Sched != nil {
		if nv, _ := runRe(&p, v.Sched); nv != nil {
			return nv
		}
	}
	for _, s := range reSchedules(&p, 20) {
		if nv, _ := runRe(&p, s); nv != nil {
			return nv
		}
	}
	return nil
}
