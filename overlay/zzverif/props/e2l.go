package props

import (
	"encoding/json"
	"fmt"

	"github.com/fufuok/cache/zzverif/adapt"
	"github.com/fufuok/cache/zzverif/model"
	"github.com/fufuok/cache/zzverif/stats"
	"github.com/fufuok/cache/zzverif/vs"
	"pgregory.net/rapid"
)

// E2L: long concurrent programs over DISJOINT key sets. Every thread owns its keys, so its calls
// must behave exactly like a sequential run on those keys (checked call by call against the
// thread's own reference model) although all threads share buckets, chains, the table and every
// grow / shrink it goes through. This scales the concurrent engine from 2-4 calls per thread to
// hundreds (several resize cycles per execution) without needing the linearizability search.

const e2lStride = 1000 // thread t owns keys t*1000 .. t*1000+K-1

type LongProgram struct {
	Spec    adapt.Spec   `json:"spec"`
	Layout  uint64       `json:"layout"`
	K       int          `json:"keys_per_thread"`
	Threads [][]model.Op `json:"threads"` // keys are thread-local indices 0..K-1
	Seed    uint64       `json:"seed"`
}

func (p *LongProgram) Text() string {
	s := fmt.Sprintf("container: %s; layout seed %#x; %d threads x %d own keys\n", p.Spec.String(), p.Layout, len(p.Threads), p.K)
	for t, ops := range p.Threads {
		s += fmt.Sprintf("T%d (%d calls):", t, len(ops))
		for i, o := range ops {
			if i >= 14 {
				s += " ..."
				break
			}
			s += " " + o.String() + ";"
		}
		s += "\n"
	}
	return s
}

func genLong(rt *rapid.T, kinds []string) *LongProgram {
	pf := &profile{kinds: kinds, hashers: []string{"", "", "const", "lowbits", "sameh2", "identity"}}
	p := &LongProgram{Spec: genSpec(rt, pf)}
	p.Spec.Presize = 0
	p.Layout = rapid.Uint64().Draw(rt, "layoutSeed")
	p.Seed = rapid.Uint64().Draw(rt, "schedSeed")
	nthr := irange(rt, 2, 4, "threads")
	p.K = pick(rt, []int{12, 40, 70, 120}, "keysPerThread")
	if p.Spec.Hasher == "const" && p.K > 40 {
		p.K = 40
	}
	isCache := p.Spec.IsCache()
	next := 1
	for t := 0; t < nthr; t++ {
		n := pick(rt, []int{60, 150, 300}, "nops")
		// phases: fill, churn, drain — so that the shared table grows and shrinks while others work
		var ops []model.Op
		for i := 0; i < n; i++ {
			phase := i * 3 / n
			var o model.Op
			o.Key = irange(rt, 0, p.K-1, "key")
			if phase != 1 && uniform(rt, 4, "sequentialKey") != 0 {
				o.Key = i % p.K // fill and drain walk the thread's keys in order: the table is sure to grow and shrink
			}
			c := uniform(rt, 100, "op")
			ins, del := 45, 25
			if phase == 0 {
				ins, del = 80, 5
			} else if phase == 2 {
				ins, del = 10, 75
			}
			next++
			o.Val = next
			switch {
			case c < ins:
				if isCache {
					o.K = pick(rt, []model.Kind{model.CSet, model.CSetForever, model.CGetOrSet, model.CGetAndSet, model.CGetOrCompute, model.CCompute}, "ins")
					o.D = pick(rt, []int64{model.NoExpiration, model.DefaultExpiration, 0, 1000}, "ttl")
				} else {
					o.K = pick(rt, []model.Kind{model.MStore, model.MLoadOrStore, model.MLoadAndStore, model.MLoadOrCompute, model.MCompute}, "ins")
				}
				o.Fn = model.FnStore
			case c < ins+del:
				if isCache {
					o.K = pick(rt, []model.Kind{model.CDelete, model.CGetAndDelete, model.CCompute}, "del")
				} else {
					o.K = pick(rt, []model.Kind{model.MDelete, model.MLoadAndDelete, model.MCompute}, "del")
				}
				o.Fn = model.FnDelete
			default:
				if isCache {
					o.K = pick(rt, []model.Kind{model.CGet, model.CGetExp, model.CGetAndRefresh, model.CRange}, "read")
					o.D = model.NoExpiration
				} else {
					o.K = pick(rt, []model.Kind{model.MLoad, model.MLoad, model.MRange}, "read")
				}
			}
			ops = append(ops, o)
		}
		p.Threads = append(p.Threads, ops)
	}
	return p
}

// runLong executes p under s; every thread checks its own calls against its own model.
func runLong(p *LongProgram, s *Sched, prop string) (*Violation, *vs.Result, bool) {
	vs.ClockOn = true
	vs.NowNS = vs.Epoch
	vs.TickOn = false
	vs.SetLayoutSeed(p.Layout)
	api := adapt.New(p.Spec)
	defer api.Release()
	n := len(p.Threads)
	models := make([]*model.M, n)
	errs := make([]string, n)
	hists := make([][]string, n)
	fns := make([]func(), n)
	mkViol := func(kind, desc, detail string) *Violation {
		b, _ := json.Marshal(p)
		v := &Violation{Property: prop, Kind: kind, Desc: desc, Detail: detail, Engine: "E2L", Extra: b, Sched: s}
		for t := range hists {
			h := hists[t]
			if len(h) > 12 {
				h = h[len(h)-12:]
			}
			for _, l := range h {
				v.History = append(v.History, fmt.Sprintf("T%d %s", t, l))
			}
		}
		return v
	}
	for t := 0; t < n; t++ {
		t := t
		models[t] = model.New(p.K, vs.Epoch, adapt.EffDefault(p.Spec), p.Spec.CB)
		ops := p.Threads[t]
		fns[t] = func() {
			m := models[t]
			for i := range ops {
				o := ops[i]
				g := o
				g.Key = t*e2lStride + o.Key
				res := adapt.SafeDo(api, &g)
				// map observations back to thread-local keys; foreign keys seen by a traversal are ignored
				if len(res.Vis) > 0 {
					var own []model.KV
					for _, kv := range res.Vis {
						if kv.K/e2lStride == t && kv.K >= 0 {
							own = append(own, model.KV{K: kv.K % e2lStride, V: kv.V})
						}
					}
					res.Vis = own
				}
				for j := range res.Ev {
					if res.Ev[j].K/e2lStride == t {
						res.Ev[j].K %= e2lStride
					} else {
						res.Ev[j].K = -1 - res.Ev[j].K
					}
				}
				hists[t] = append(hists[t], fmt.Sprintf("%s -> %s", g.String(), res.String()))
				if res.Panic != "" {
					errs[t] = fmt.Sprintf("call %d %s panicked: %s", i, g.String(), res.Panic)
					return
				}
				if err := m.Step(&o, &res); err != nil {
					errs[t] = fmt.Sprintf("call %d of thread %d, %s -> %s: %v (only this thread ever touches this key)", i, t, g.String(), res.String(), err)
					return
				}
			}
		}
	}
	g0, s0, _ := api.Stats()
	r := vs.Run(s.Decider(), 40000000, fns...)
	if r.Fail != nil {
		return mkViol("scheduler:"+r.Fail.Kind, r.Fail.Kind, r.Fail.Detail), r, false
	}
	for t := range errs {
		if errs[t] != "" {
			return mkViol("sequential-per-thread", "own-keys", errs[t]), r, false
		}
	}
	// quiescent read-back: every key of every thread, Size, Range
	kLoad, kSize, kRange := mapKinds(p.Spec)
	live := 0
	want := map[int]int{}
	for t := 0; t < n; t++ {
		for k := 0; k < p.K; k++ {
			o := model.Op{K: kLoad, Key: k}
			g := o
			g.Key = t*e2lStride + k
			res, f := seqDo(api, &g)
			if f != nil {
				return mkViol("scheduler:"+f.Kind, f.Kind+":quiescent", f.Detail), r, false
			}
			if err := models[t].Step(&o, &res); err != nil {
				return mkViol("sequential-per-thread", "quiescent-load", fmt.Sprintf("quiescent %s -> %s: %v", g.String(), res.String(), err)), r, false
			}
			if res.OK {
				live++
				want[g.Key] = res.V
			}
		}
	}
	so := model.Op{K: kSize}
	sres, _ := seqDo(api, &so)
	ro := model.Op{K: kRange}
	rres, f := seqDo(api, &ro)
	if f != nil {
		return mkViol("scheduler:"+f.Kind, f.Kind+":quiescent", f.Detail), r, false
	}
	seen := map[int]bool{}
	for _, kv := range rres.Vis {
		if seen[kv.K] {
			return mkViol("direct", "duplicate-visit", fmt.Sprintf("quiescent traversal visited k%d twice", kv.K)), r, false
		}
		seen[kv.K] = true
		if v, ok := want[kv.K]; !ok || v != kv.V {
			return mkViol("direct", "phantom", fmt.Sprintf("quiescent traversal shows (k%d,%d); point lookups say (%d,%v)", kv.K, kv.V, v, ok)), r, false
		}
	}
	if len(rres.Vis) != live || (!p.Spec.IsCache() && int(sres.T) != live) || (p.Spec.IsCache() && int(sres.T) < live) {
		return mkViol("direct", "quiescent-size-mismatch", fmt.Sprintf("at quiescence Size/Count=%d, traversal visits %d pairs, %d keys load successfully", sres.T, len(rres.Vis), live)), r, false
	}
	g1, s1, _ := api.Stats()
	return nil, r, g1 > g0 && s1 > s0
}

func exploreLong(p *LongProgram, prop string, nsched int) (*Violation, int) {
	r := &rng{s: p.Seed}
	n := len(p.Threads)
	total := 0
	for _, t := range p.Threads {
		total += len(t) * 25
	}
	execs := 0
	for i := 0; i < nsched; i++ {
		var s *Sched
		switch i % 3 {
		case 0:
			s = &Sched{Kind: "rw", Seed: r.next(), Den: []uint64{4, 16, 64, 256}[r.intn(4)]}
		case 1:
			var ch []vs.Change
			for j := 0; j < 4+r.intn(10); j++ {
				ch = append(ch, vs.Change{Thread: r.intn(n), Step: 1 + r.intn(total/n+1)})
			}
			s = &Sched{Kind: "pct", Prio: prioFromOrder(permute(r, n)), Changes: ch}
		default:
			// kind-directed: pause threads at their first waits / broadcasts, plus random change points
			ch := []vs.Change{{Thread: r.intn(n), Step: 1 + r.intn(3), Kind: int(vs.KCondWait)}, {Thread: r.intn(n), Step: 1 + r.intn(3), Kind: int(vs.KCondSignal)}}
			for j := 0; j < 3+r.intn(6); j++ {
				ch = append(ch, vs.Change{Thread: r.intn(n), Step: 1 + r.intn(total/n+1)})
			}
			s = &Sched{Kind: "pct", Prio: prioFromOrder(permute(r, n)), Changes: ch}
		}
		v, res, cycled := runLong(p, s, prop)
		execs++
		stats.Inc("executions")
		stats.Inc("long_executions")
		if res != nil {
			stats.Add("context_switches", int64(res.AllSwitches))
			stats.Max("max_points_per_execution", int64(res.Total))
			if res.Broadcasts > 0 {
				stats.Inc("long_executions_with_resize")
			}
			if res.Switches > 0 && res.Broadcasts > 0 {
				b, _ := json.Marshal(s)
				stats.NonTrivial(stats.Hash64("long", fmt.Sprint(p.Layout, p.K, len(p.Threads)), p.Text(), string(b)))
				stats.Inc("nontrivial_executions")
			}
		}
		if cycled {
			stats.Inc("long_executions_grow_and_shrink")
		}
		if v != nil {
			return v, execs
		}
	}
	return nil, execs
}

func runE2L(rt *rapid.T, prop string, kinds []string) {
	p := genLong(rt, kinds)
	stats.Inc("long_programs")
	nsched := 9
	if tier() == "thorough" {
		nsched = 30
	}
	v, execs := exploreLong(p, prop, nsched)
	if v != nil {
		writeReplay(v)
		rt.Fatalf("VIOLATION %s\nprogram:\n%sschedule: %s", v.Short(), p.Text(), v.Sched.String())
	}
	stats.Sample(map[string]interface{}{"long_program": p.Text(), "schedules": execs})
}

func replayLong(v *Violation) *Violation {
	var p LongProgram
	if err := json.Unmarshal(v.Extra, &p); err != nil {
		return nil
	}
	orig := p.Layout
	for i := uint64(0); i < 16; i++ {
		p.Layout = orig + i*0x9e3779b97f4a7c15
		if v.Sched != nil {
			if nv, _, _ := runLong(&p, v.Sched, v.Property); nv != nil {
				return nv
			}
		}
		if nv, _ := exploreLong(&p, v.Property, 30); nv != nil {
			return nv
		}
	}
	return nil
}
