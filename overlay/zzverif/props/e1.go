package props

import (
	"encoding/json"
	"fmt"
	"math"
	"strings"

	"github.com/fufuok/cache/zzverif/adapt"
	"github.com/fufuok/cache/zzverif/model"
	"github.com/fufuok/cache/zzverif/stats"
	"github.com/fufuok/cache/zzverif/vs"
	"pgregory.net/rapid"
)

// E1: sequential model-based engine. A rapid state machine drives one container
// and the reference model in lock-step under the virtual clock; every call is
// executed as a one-thread controlled run so that a self-deadlock or endless
// spin inside a call is a reported failure, not a hung process.

const (
	e1Hot      = 8   // hot keys 0..7
	e1BulkBase = 100 // bulk keys 100..
	e1BulkMax  = 420
	e1Keys     = e1BulkBase + e1BulkMax
)

// Case is the replayable form of a sequential case.
type Case struct {
	Spec   adapt.Spec `json:"spec"`
	Layout uint64     `json:"layout"`
	Ops    []model.Op `json:"ops"`
}

func (c *Case) Text() string {
	var sb strings.Builder
	fmt.Fprintf(&sb, "container: %s; layout seed %#x\n", c.Spec.String(), c.Layout)
	for i, o := range c.Ops {
		fmt.Fprintf(&sb, "  %2d. %s\n", i, o.String())
	}
	return sb.String()
}

type e1Focus struct {
	prop    string
	ttlBias bool // C09: boundary TTLs / defaults / getters
	cbBias  bool // C06: callbacks, removals, re-entry
	cntBias bool // C08: counts, bulk, clear
	w       []wk
}

var e1AllW = []wk{
	{model.CSet, 14}, {model.CSetDefault, 4}, {model.CSetForever, 3}, {model.CGet, 10}, {model.CGetExp, 5}, {model.CGetTTL, 5},
	{model.CGetOrSet, 7}, {model.CGetAndSet, 7}, {model.CGetAndRefresh, 7}, {model.CGetOrCompute, 7}, {model.CCompute, 9},
	{model.CGetAndDelete, 7}, {model.CDelete, 5}, {model.CDeleteExpired, 6}, {model.CRange, 4}, {model.CItems, 3}, {model.CClear, 2},
	{model.CCount, 4}, {model.CDefaultExp, 2}, {model.CSetDefaultExp, 3}, {model.CSetCallback, 2},
	{model.HAdvance, 22}, {model.HBulkSet, 3}, {model.HBulkDel, 2}, {model.HBulkGet, 1}, {model.HGC, 1},
}

var e1Focuses = map[string]*e1Focus{
	"C01": {prop: "C01", w: e1AllW},
	"C09": {prop: "C09", ttlBias: true, w: []wk{
		{model.CSet, 14}, {model.CSetDefault, 8}, {model.CSetForever, 3}, {model.CGet, 4}, {model.CGetExp, 12}, {model.CGetTTL, 12},
		{model.CGetOrSet, 8}, {model.CGetAndSet, 8}, {model.CGetAndRefresh, 10}, {model.CGetOrCompute, 8}, {model.CCompute, 8},
		{model.CRange, 2}, {model.CDefaultExp, 6}, {model.CSetDefaultExp, 10}, {model.HAdvance, 22}, {model.CDeleteExpired, 2}, {model.HBulkSet, 1}}},
	"C06": {prop: "C06", cbBias: true, w: []wk{
		{model.CSet, 14}, {model.CSetDefault, 2}, {model.CGet, 5}, {model.CGetOrSet, 3}, {model.CGetAndSet, 5}, {model.CGetAndRefresh, 3}, {model.CCompute, 6},
		{model.CGetAndDelete, 12}, {model.CDelete, 12}, {model.CDeleteExpired, 14}, {model.CClear, 2}, {model.CCount, 2}, {model.CSetCallback, 6},
		{model.HAdvance, 20}, {model.HBulkSet, 3}, {model.HBulkDel, 3}, {model.CItems, 1}}},
	"C08": {prop: "C08", cntBias: true, w: []wk{
		{model.CSet, 12}, {model.CGet, 5}, {model.CGetOrSet, 4}, {model.CGetAndSet, 3}, {model.CGetAndRefresh, 3}, {model.CCompute, 6}, {model.CGetOrCompute, 3},
		{model.CGetAndDelete, 6}, {model.CDelete, 8}, {model.CDeleteExpired, 10}, {model.CClear, 5}, {model.CCount, 14}, {model.CRange, 3}, {model.CItems, 3},
		{model.HAdvance, 16}, {model.HBulkSet, 6}, {model.HBulkDel, 5}, {model.HBulkGet, 2}}},
}

var e1TTL = []int64{model.NoExpiration, model.DefaultExpiration, model.NoExpiration - 1, -1500000000, -1, 0, 1, 2, 7, 50, 1000, 1000000000, 1 << 62,
	math.MaxInt64, math.MaxInt64 - 1700000000000000000, math.MaxInt64 - 1600000000000000000, math.MinInt64}

func genE1Spec(rt *rapid.T, f *e1Focus) adapt.Spec {
	s := adapt.Spec{Kind: pick(rt, []string{"cache", "cacheof"}, "container")}
	if s.Kind == "cacheof" {
		s.Key = pick(rt, []string{"int", "string", "struct"}, "keytype")
	}
	defs := []int64{-9223372036854775808, model.NoExpiration, model.DefaultExpiration, -1, 0, 1, 5, 60, 1000000000, 1 << 61}
	switch irange(rt, 0, 2, "ctor") {
	case 0: // library defaults
	case 1:
		s.HasDef = true
		s.DefExp = pick(rt, defs, "defexp")
	case 2:
		s.Ctor = "default"
		s.DefExp = pick(rt, defs, "defexp")
	}
	s.CB = f.cbBias || rapid.Bool().Draw(rt, "callback")
	if s.CB {
		s.Reenter = uint8(irange(rt, 0, 3, "reenter"))
	}
	s.Cleanup = pick(rt, []int64{-5000000, 0, 0, 1000000000}, "cleanup")
	if s.Ctor != "default" {
		s.Presize = pick(rt, []int{0, 0, 0, -3, 1, 500}, "mincap")
		// option lists: any order, and an option may occur more than once (the last occurrence counts)
		s.OptPerm = uint8(irange(rt, 0, 3, "optionOrder"))
		if irange(rt, 0, 2, "repeatedOptions") == 0 {
			for i, n := 0, irange(rt, 1, 2, "nShadow"); i < n; i++ {
				sh := adapt.ShadowOpt{Name: pick(rt, []string{"defexp", "defexp", "cleanup", "callback", "mincap"}, "shadowName")}
				switch sh.Name {
				case "defexp":
					sh.D = pick(rt, []int64{30, 1000000000, 1, -1, 0, model.NoExpiration}, "shadowDefExp")
				case "cleanup":
					sh.D = pick(rt, []int64{0, -7000000}, "shadowCleanup")
				case "mincap":
					sh.D = int64(pick(rt, []int{1, 700, -2}, "shadowMinCap"))
				}
				s.Shadow = append(s.Shadow, sh)
			}
		}
	}
	return s
}

type e1State struct {
	api   adapt.API
	m     *model.M
	c     *Case
	next  int
	f     *e1Focus
	flags map[string]bool
}

func (st *e1State) val() int { st.next++; return st.next }

// valz: now and then the zero value (a nil interface in Cache, 0 in CacheOf) — a value like any other.
func (st *e1State) valz(rt *rapid.T) int {
	if irange(rt, 0, 11, "zeroValue") == 0 {
		return 0
	}
	return st.val()
}

func (st *e1State) genOp(rt *rapid.T) model.Op {
	m := st.m
	var o model.Op
	o.K = pickKind(rt, st.f.w, "op")
	o.Key = irange(rt, 0, e1Hot-1, "key")
	ttl := func() int64 {
		if irange(rt, 0, 3, "ttlClass") == 0 {
			return int64(irange(rt, 1, 120, "ttlSmall"))
		}
		return pick(rt, e1TTL, "ttl")
	}
	switch o.K {
	case model.CSet, model.CGetOrSet, model.CGetAndSet, model.CGetOrCompute:
		o.Val, o.D = st.valz(rt), ttl()
	case model.CSetDefault, model.CSetForever:
		o.Val = st.valz(rt)
	case model.CCompute:
		o.Val, o.D = st.valz(rt), ttl()
		o.Fn = uint8(irange(rt, 0, 3, "fn"))
	case model.CGetAndRefresh:
		o.D = ttl()
	case model.CSetDefaultExp:
		o.D = pick(rt, []int64{model.NoExpiration, model.DefaultExpiration, -1, 0, 1, 9, 300, 1000000000}, "newDefault")
	case model.CSetCallback:
		o.On = irange(rt, 0, 2, "install") > 0
		if o.On {
			o.N = irange(rt, 1, 2, "whichCallback") // two distinct callbacks: the ledger knows which one fired
		}
	case model.CRange:
		if irange(rt, 0, 2, "stopEarly") == 0 {
			o.N = irange(rt, 1, 6, "stopAfter")
		}
	case model.HAdvance:
		// land exactly on, one tick before or one tick after the expiry of a live entry
		var cand []int64
		for i := range m.Ents {
			e := &m.Ents[i]
			if e.Phys != model.Absent && e.E != 0 && e.E >= m.Now && e.E-m.Now < (1<<61) {
				cand = append(cand, e.E)
				if len(cand) >= 12 {
					break
				}
			}
		}
		cls := irange(rt, 0, 10, "advClass")
		// instants at a "magic" distance from ANY stamped expiry, past or future: the sentinels -1s / -2s are ordinary
		// durations, so code that mixes them with real remaining lifetimes goes wrong exactly there
		var stamped []int64
		for i := range m.Ents {
			if e := &m.Ents[i]; e.Phys != model.Absent && e.E > 0 && e.E < vs.Epoch+(1<<61) {
				stamped = append(stamped, e.E)
				if len(stamped) >= 12 {
					break
				}
			}
		}
		switch {
		case cls == 10 && len(stamped) > 0:
			e := pick(rt, stamped, "magicTarget")
			off := pick(rt, []int64{1000000000, 2000000000, 1000000000 - 1, 1000000000 + 1, 2000000000 - 1, 2000000000 + 1, -1000000000, -2000000000, 1500000000}, "magicOff")
			d := e + off - m.Now
			if d < 0 {
				d = 0
			}
			o.D = d
		case cls < 6 && len(cand) > 0:
			e := pick(rt, cand, "targetExpiry")
			d := e - m.Now + int64(irange(rt, -1, 1, "around"))
			if d < 0 {
				d = 0
			}
			o.D = d
		case cls < 9 || cls == 10:
			o.D = int64(irange(rt, 0, 150, "advSmall"))
		default:
			o.D = pick(rt, []int64{1000, 1000000000, 3000000000}, "advBig")
		}
		// keep every instant representable as UnixNano (documented limit of time.Time.UnixNano):
		// now <= epoch + 2^61, TTL <= 2^62  =>  now + TTL < 2^63
		if m.Now+o.D > vs.Epoch+(1<<61) {
			o.D = 1
		}
	case model.HBulkSet:
		o.Key = e1BulkBase + irange(rt, 0, 20, "bulkOff")
		o.N = irange(rt, 40, 400, "bulkN")
		o.Val = 1000000 + st.next*1000
		st.next += 2
		o.D = pick(rt, []int64{model.NoExpiration, model.DefaultExpiration, 5, 40, 90, 1000}, "bulkTTL")
	case model.HBulkDel, model.HBulkGet:
		o.Key = e1BulkBase + irange(rt, 0, 60, "bulkOff")
		o.N = irange(rt, 30, 360, "bulkN")
	}
	return o
}

// e1Exec performs one op (controlled single-thread run, Count probes where the property speaks about Count).
func e1Exec(api adapt.API, o *model.Op) (model.Res, *vs.Failure) {
	if o.K == model.HAdvance {
		vs.NowNS += o.D
		return model.Res{}, nil
	}
	probe := o.K == model.CDelete || o.K == model.CGetAndDelete || o.K == model.CDeleteExpired
	c0 := 0
	if probe {
		cnt := model.Op{K: model.CCount}
		c0 = int(api.Do(&cnt).T)
	}
	var res model.Res
	r := vs.Run(&vs.NonPreemptive{Order: []int{0}}, 6000000, func() { res = adapt.SafeDo(api, o) })
	if r.Fail != nil {
		return res, r.Fail
	}
	if probe {
		cnt := model.Op{K: model.CCount}
		res.Probe, res.C0, res.C1 = true, c0, int(api.Do(&cnt).T)
	}
	return res, nil
}

func e1Violation(prop string, c *Case, kind, desc, detail string, hist []string) *Violation {
	b, _ := json.Marshal(c)
	return &Violation{Property: prop, Kind: kind, Desc: desc, Detail: detail, Engine: "E1", Extra: b, History: hist}
}

// e1Step executes and checks one op; returns a violation or nil.
func (st *e1State) step(o model.Op, hist *[]string) *Violation {
	st.c.Ops = append(st.c.Ops, o)
	m := st.m
	// classification before the call
	if o.K != model.HAdvance && o.Key < len(m.Ents) && m.ExpiredUncleaned(o.Key) {
		switch o.K {
		case model.CGet, model.CGetExp, model.CGetTTL, model.CGetOrSet, model.CGetAndSet, model.CGetAndRefresh, model.CGetOrCompute, model.CCompute, model.CGetAndDelete:
			st.flags["touched-expired-uncleaned"] = true
			stats.Inc("calls_on_expired_uncleaned_" + o.K.String())
		}
	}
	if o.K != model.HAdvance && o.Key < len(m.Ents) {
		e := m.Ents[o.Key]
		if e.Phys != model.Absent && e.E != 0 && (m.Now-e.E >= -1 && m.Now-e.E <= 1) {
			st.flags["at-expiry-boundary"] = true
			stats.Inc("calls_at_expiry_boundary")
		}
	}
	res, fail := e1Exec(st.api, &o)
	*hist = append(*hist, fmt.Sprintf("%s -> %s", o.String(), res.String()))
	stats.Inc("calls_" + o.K.String())
	if fail != nil {
		return e1Violation(st.f.prop, st.c, "scheduler:"+fail.Kind, fail.Kind+":"+o.K.String(), fmt.Sprintf("%s did not return: %s", o.String(), fail.Detail), *hist)
	}
	if res.Note != "" && res.Note != "unsupported" {
		return e1Violation(st.f.prop, st.c, "direct", "callback-note", fmt.Sprintf("%s: %s", o.String(), res.Note), *hist)
	}
	if err := m.Step(&o, &res); err != nil {
		return e1Violation(st.f.prop, st.c, "sequential", "seq:"+o.K.String(), fmt.Sprintf("step %d %s -> %s: %v", len(st.c.Ops)-1, o.String(), res.String(), err), *hist)
	}
	if len(res.Ev) > 0 {
		st.flags["callback-fired"] = true
	}
	if o.K == model.HBulkSet && o.D != model.NoExpiration {
		st.flags["bulk-with-ttl"] = true
	}
	if o.K == model.CDeleteExpired && len(res.Ev) > 0 {
		st.flags["deleteexpired-fired"] = true
	}
	return nil
}

// invariant: full read-back compared with the model.
func (st *e1State) invariant(hist *[]string) *Violation {
	it := model.Op{K: model.CItems}
	res, fail := e1Exec(st.api, &it)
	if fail != nil {
		return e1Violation(st.f.prop, st.c, "scheduler:"+fail.Kind, fail.Kind+":Items", fail.Detail, *hist)
	}
	if err := st.m.Step(&it, &res); err != nil {
		return e1Violation(st.f.prop, st.c, "sequential", "seq:Items-invariant", fmt.Sprintf("read-back after step %d: Items(): %v", len(st.c.Ops)-1, err), *hist)
	}
	// every bulk key through the point-lookup path as well (Range and Load walk the chains differently)
	bg := model.Op{K: model.HBulkGet, Key: e1BulkBase, N: e1BulkMax}
	bres, bf := e1Exec(st.api, &bg)
	if bf != nil {
		return e1Violation(st.f.prop, st.c, "scheduler:"+bf.Kind, bf.Kind+":Get", bf.Detail, *hist)
	}
	if err := st.m.Step(&bg, &bres); err != nil {
		return e1Violation(st.f.prop, st.c, "sequential", "seq:Get-invariant", fmt.Sprintf("read-back after step %d: %v", len(st.c.Ops)-1, err), *hist)
	}
	cn := model.Op{K: model.CCount}
	cres, _ := e1Exec(st.api, &cn)
	if err := st.m.Step(&cn, &cres); err != nil {
		return e1Violation(st.f.prop, st.c, "sequential", "seq:Count-invariant", fmt.Sprintf("read-back after step %d: Count(): %v", len(st.c.Ops)-1, err), *hist)
	}
	if stray := adapt.Stray(st.api); len(stray) > 0 {
		return e1Violation(st.f.prop, st.c, "direct", "stray-callback", fmt.Sprintf("evicted callback fired outside any call: %v", stray), *hist)
	}
	return nil
}

func newE1(spec adapt.Spec, layout uint64, f *e1Focus) (*e1State, *Violation) {
	vs.ClockOn = true
	vs.NowNS = vs.Epoch
	vs.SetLayoutSeed(layout)
	st := &e1State{c: &Case{Spec: spec, Layout: layout}, f: f, flags: map[string]bool{}}
	var v *Violation
	func() {
		defer func() {
			if e := recover(); e != nil {
				v = e1Violation(f.prop, st.c, "panic", "constructor-panic", fmt.Sprint(e), nil)
			}
		}()
		st.api = adapt.New(spec)
	}()
	if v != nil {
		return nil, v
	}
	st.m = model.New(e1Keys, vs.Epoch, adapt.EffDefault(spec), spec.CB)
	return st, nil
}

func runE1Case(rt *rapid.T, f *e1Focus) {
	spec := genE1Spec(rt, f)
	layout := rapid.Uint64().Draw(rt, "layoutSeed")
	st, v := newE1(spec, layout, f)
	if st != nil {
		defer st.api.Release()
	}
	var hist []string
	fail := func(v *Violation) {
		writeReplay(v)
		rt.Fatalf("VIOLATION %s\ncase:\n%s", v.Short(), st.c.Text())
	}
	if v != nil {
		writeReplay(v)
		rt.Fatalf("VIOLATION %s", v.Short())
	}
	// a fresh cache must report the normalised default
	de := model.Op{K: model.CDefaultExp}
	if v := st.step(de, &hist); v != nil {
		fail(v)
	}
	steps := 0
	rt.Repeat(map[string]func(*rapid.T){
		"step": func(rt *rapid.T) {
			o := st.genOp(rt)
			steps++
			if v := st.step(o, &hist); v != nil {
				fail(v)
			}
		},
		"": func(rt *rapid.T) {
			if steps%7 == 3 {
				if v := st.invariant(&hist); v != nil {
					fail(v)
				}
			}
		},
	})
	if v := st.invariant(&hist); v != nil {
		fail(v)
	}
	// final: every hot key read back
	for k := 0; k < e1Hot; k++ {
		if v := st.step(model.Op{K: model.CGet, Key: k}, &hist); v != nil {
			fail(v)
		}
	}
	stats.Inc("cases")
	stats.Add("calls_total", int64(len(st.c.Ops)))
	nt := false
	for fl := range st.flags {
		stats.Inc("cases_" + fl)
		nt = true
	}
	if nt {
		stats.NonTrivial(stats.Hash64(st.c.Text()))
	}
	if len(hist) > 60 {
		hist = hist[:60]
	}
	stats.Sample(map[string]interface{}{"container": spec.String(), "calls_and_results": hist})
}

// replayE1 re-executes a stored sequential case against the current tree.
func replayE1(v *Violation) *Violation {
	var c Case
	if err := json.Unmarshal(v.Extra, &c); err != nil {
		return nil
	}
	f := e1Focuses[v.Property]
	if f == nil {
		f = e1Focuses["C01"]
	}
	orig := c.Layout
	for i := uint64(0); i < 64; i++ {
		lay := orig + i*0x9e3779b97f4a7c15
		st, nv := newE1(c.Spec, lay, f)
		if nv != nil {
			return nv
		}
		defer st.api.Release()
		var hist []string
		for _, o := range c.Ops {
			if nv := st.step(o, &hist); nv != nil {
				return nv
			}
		}
		if nv := st.invariant(&hist); nv != nil {
			return nv
		}
	}
	return nil
}
