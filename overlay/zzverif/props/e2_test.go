package props

import (
	"encoding/json"
	"fmt"
	"os"
	"path/filepath"
	"runtime"
	"strings"
	"testing"
	"time"

	"github.com/fufuok/cache/zzverif/stats"
	"github.com/fufuok/cache/zzverif/vs"
	"pgregory.net/rapid"
)

func TestMain(m *testing.M) {
	vs.ClockOn = true
	vs.NowNS = vs.Epoch
	if os.Getenv("VERIF_MEMLOG") != "" {
		go func() {
			for {
				time.Sleep(5 * time.Second)
				var ms runtime.MemStats
				runtime.ReadMemStats(&ms)
				fmt.Fprintf(os.Stderr, "memlog goroutines=%d heapInuse=%dMB sys=%dMB numGC=%d\n", runtime.NumGoroutine(), ms.HeapInuse>>20, ms.Sys>>20, ms.NumGC)
			}
		}()
	}
	code := m.Run()
	stats.Flush()
	os.Exit(code)
}

func tier() string {
	if t := os.Getenv("VERIF_TIER"); t != "" {
		return t
	}
	return "quick"
}

func sweepFor(prop string) sweepCfg {
	if tier() == "thorough" {
		return sweepCfg{maxSingle: 900, pct3: 30, pct4: 20, walks: 30, double: true, maxDouble: 8000}
	}
	return sweepCfg{maxSingle: 400, pct3: 12, pct4: 6, walks: 12}
}

// writeReplay stores the failing case; rapid re-runs the minimal case last, so
// the final content is the shrunk reproduction.
func writeReplay(v *Violation) {
	p := os.Getenv("VERIF_REPLAY_OUT")
	if p == "" {
		return
	}
	b, _ := json.MarshalIndent(v, "", " ")
	_ = os.WriteFile(p, b, 0o644)
}

func runE2(t *testing.T, prop string) {
	pf := profiles[prop]
	if tier() == "thorough" {
		// deeper programs in the thorough tier (the checker handles up to 64 events)
		cp := *pf
		cp.opsMax++
		if cp.thrMax < 4 {
			cp.thrMax = 4
		}
		pf = &cp
	}
	cfg := sweepFor(prop)
	rapid.Check(t, func(rt *rapid.T) {
		p := genProgram(rt, pf)
		stats.Inc("programs")
		e := &explorer{p: p, cfg: cfg, prop: prop}
		if v := e.explore(); v != nil {
			writeReplay(v)
			rt.Fatalf("VIOLATION %s\nprogram:\n%sschedule: %s", v.Short(), p.Text(), v.Sched.String())
		}
		if e.ntSeen > 0 {
			stats.Inc("programs_with_nontrivial_execution")
		}
		var hist []string
		if e.lastOut != nil {
			for _, r := range e.lastOut.Recs {
				hist = append(hist, r.String())
			}
		}
		stats.Sample(map[string]interface{}{"program": p.Text(), "schedules_explored": e.execs, "nontrivial_schedules": e.ntSeen, "history_of_last_schedule": hist})
	})
}

func TestC02(t *testing.T) { runE2(t, "C02") }
func TestC03(t *testing.T) { runE2(t, "C03") }
func TestC04(t *testing.T) { runE2(t, "C04") }
func TestC05(t *testing.T) { runE2(t, "C05") }
func TestC06E2(t *testing.T) { runE2(t, "C06") }
func TestC07E2(t *testing.T) { runE2(t, "C07") }
func TestC08E2(t *testing.T) { runE2(t, "C08") }
func TestC13(t *testing.T) { runE2(t, "C13") }

func TestC09E2(t *testing.T)      { runE2(t, "C09") }
func TestC13Reenter(t *testing.T) { rapid.Check(t, runC13Reenter) }
func TestC03L(t *testing.T) { rapid.Check(t, func(rt *rapid.T) { runE2L(rt, "C03", []string{"map"}) }) }
func TestC04L(t *testing.T) { rapid.Check(t, func(rt *rapid.T) { runE2L(rt, "C04", []string{"mapof"}) }) }
func TestC02L(t *testing.T) {
	rapid.Check(t, func(rt *rapid.T) { runE2L(rt, "C02", []string{"cache", "cacheof"}) })
}
func TestC08L(t *testing.T) {
	rapid.Check(t, func(rt *rapid.T) { runE2L(rt, "C08", []string{"map", "mapof", "cache", "cacheof"}) })
}

func TestC16(t *testing.T) {
	rapid.Check(t, func(rt *rapid.T) {
		p := genC16(rt)
		stats.Inc("programs")
		v, execs, nt := exploreStall(p)
		if v != nil {
			writeReplay(v)
			rt.Fatalf("VIOLATION %s\nprogram:\n%sschedule: %s", v.Short(), p.Text(), v.Sched.String())
		}
		stats.Sample(map[string]interface{}{"program": p.Text(), "stall_points_explored": execs, "nontrivial": nt})
	})
}

// replayViolation re-executes a stored violation against the current tree and
// returns the reproduced violation (nil if the tree no longer shows it).
func replayViolation(v *Violation, deep bool) (*Violation, string) {
	if v.Engine != "E2" {
		return replayOtherV(v), "sequential re-execution"
	}
	p := v.Program
	nlay, nexp := uint64(64), uint64(2)
	cfg := sweepCfg{maxSingle: 600, pct3: 12, pct4: 6, walks: 12}
	if deep {
		nlay, nexp = 512, 24
		cfg = sweepCfg{maxSingle: 900, pct3: 30, pct4: 20, walks: 30, double: true, maxDouble: 8000}
	}
	if v.Sched != nil {
		// placement of default-hashed keys differs between processes: sweep the layout seed
		orig := p.Layout
		for i := uint64(0); i <= nlay; i++ {
			p.Layout = orig + i*0x9e3779b97f4a7c15
			(&explorer{p: p}).resolve()
			if out := execute(p, v.Sched, execOpts{}); out.Viol != nil {
				out.Viol.Property = v.Property
				return out.Viol, fmt.Sprintf("same schedule, layout seed %#x", p.Layout)
			}
		}
		p.Layout = orig
	}
	orig := p.Layout
	for i := uint64(0); i < nexp; i++ {
		p.Layout = orig + i*0x9e3779b97f4a7c15
		e := &explorer{p: p, cfg: cfg, prop: v.Property}
		if nv := e.explore(); nv != nil {
			return nv, fmt.Sprintf("schedule sweep, layout seed %#x", p.Layout)
		}
	}
	p.Layout = orig
	return nil, ""
}

func loadViolation(path string) (*Violation, error) {
	b, err := os.ReadFile(path)
	if err != nil {
		return nil, err
	}
	var v Violation
	if err := json.Unmarshal(b, &v); err != nil {
		return nil, err
	}
	return &v, nil
}

// TestReplay re-executes a stored violation against the current tree.
func TestReplay(t *testing.T) {
	in := os.Getenv("VERIF_REPLAY_IN")
	if in == "" {
		t.Skip("no VERIF_REPLAY_IN")
	}
	v, err := loadViolation(in)
	if err != nil {
		t.Fatalf("replay file: %v", err)
	}
	if nv, how := replayViolation(v, true); nv != nil {
		writeReplay(nv)
		t.Fatalf("REPRODUCED (%s): %s", how, nv.Short())
	}
	t.Logf("replay did not reproduce on this tree")
}

// TestRegress replays the committed shrunk reproductions of earlier findings
// that belong to the property being checked (the seconds-long replay tier).
func TestRegress(t *testing.T) {
	dir, prop := os.Getenv("VERIF_REGRESS"), os.Getenv("VERIF_PROP")
	if dir == "" || prop == "" {
		t.Skip("no regress dir")
	}
	files, _ := filepath.Glob(filepath.Join(dir, "*.json"))
	for _, f := range files {
		v, err := loadViolation(f)
		if err != nil {
			t.Fatalf("%s: %v", f, err)
		}
		if v.Property != prop && !strings.Contains(filepath.Base(f), prop) {
			continue
		}
		want := v.Property
		v.Property = prop
		stats.Inc("regress_replays")
		if nv, how := replayViolation(v, false); nv != nil {
			nv.Property = prop
			writeReplay(nv)
			t.Fatalf("REGRESSION %s (found for %s) reproduces (%s): %s", filepath.Base(f), want, how, nv.Short())
		}
	}
}

func replayOtherV(v *Violation) *Violation {
	switch v.Engine {
	case "E1":
		return replayE1(v)
	case "E1-C07":
		return replayC07(v)
	case "E1-C11":
		return replayC11(v)
	case "E1-C12":
		return replayC12(v)
	case "E2L":
		return replayLong(v)
	case "E2R":
		return replayRe(v)
	}
	return nil
}

func replayOther(t *testing.T, v *Violation) {
	switch v.Engine {
	case "E1":
		if nv := replayE1(v); nv != nil {
			writeReplay(nv)
			t.Fatalf("REPRODUCED: %s", nv.Short())
		}
		t.Logf("replay did not reproduce on this tree")
	default:
		t.Skipf("engine %s has no replay", v.Engine)
	}
}

func runE1(t *testing.T, focus string) {
	f := e1Focuses[focus]
	rapid.Check(t, func(rt *rapid.T) { runE1Case(rt, f) })
}

func TestC11(t *testing.T)   { rapid.Check(t, runC11Case) }
func TestC12(t *testing.T)   { rapid.Check(t, runC12Case) }
func TestC07E1(t *testing.T) { rapid.Check(t, runC07Case) }
func TestC01(t *testing.T)   { runE1(t, "C01") }
func TestC09(t *testing.T)   { runE1(t, "C09") }
func TestC06E1(t *testing.T) { runE1(t, "C06") }
func TestC08E1(t *testing.T) { runE1(t, "C08") }

