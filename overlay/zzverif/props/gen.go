package props

import (
	"encoding/json"

	"github.com/fufuok/cache/zzverif/adapt"
	"github.com/fufuok/cache/zzverif/model"
	"pgregory.net/rapid"
)

func jsonMarshal(v interface{}) ([]byte, error) { return json.Marshal(v) }

type wk struct {
	k model.Kind
	w int
}

// profile steers the program generator towards the behaviour one property is about.
type profile struct {
	prop      string
	kinds     []string // container kinds
	hotMax    int
	thrMin    int
	thrMax    int
	opsMax    int
	oneKey    bool // all thread ops on key 0 (C05)
	cbAlways  bool
	traverser bool // thread 0 starts with a traversal (C07)
	mapW      []wk
	cacheW    []wk
	fillBias  string // "" | "threshold" (prefer fills around grow/shrink thresholds)
	hashers   []string
}

var allMapW = []wk{{model.MLoad, 10}, {model.MStore, 12}, {model.MLoadOrStore, 8}, {model.MLoadAndStore, 8}, {model.MLoadOrCompute, 8},
	{model.MCompute, 12}, {model.MLoadAndDelete, 8}, {model.MDelete, 8}, {model.MClear, 7}, {model.MSize, 3}, {model.MRange, 5}}

var allCacheW = []wk{{model.CSet, 10}, {model.CSetDefault, 2}, {model.CSetForever, 2}, {model.CGet, 8}, {model.CGetExp, 2}, {model.CGetTTL, 2},
	{model.CGetOrSet, 7}, {model.CGetAndSet, 7}, {model.CGetAndRefresh, 6}, {model.CGetOrCompute, 7}, {model.CCompute, 9},
	{model.CGetAndDelete, 7}, {model.CDelete, 6}, {model.CDeleteExpired, 9}, {model.CRange, 3}, {model.CItems, 2}, {model.CClear, 5},
	{model.CCount, 3}, {model.CDefaultExp, 1}, {model.CSetDefaultExp, 1}}

var defaultHashers = []string{"", "", "", "const", "samebucket", "sameh2", "identity", "lowbits", "split", "split"}

var profiles = map[string]*profile{
	"C02": {prop: "C02", kinds: []string{"cache", "cacheof"}, hotMax: 3, thrMin: 2, thrMax: 3, opsMax: 3, cacheW: allCacheW, fillBias: "threshold"},
	"C03": {prop: "C03", kinds: []string{"map"}, hotMax: 3, thrMin: 2, thrMax: 3, opsMax: 3, mapW: allMapW, fillBias: "threshold"},
	"C04": {prop: "C04", kinds: []string{"mapof"}, hotMax: 3, thrMin: 2, thrMax: 3, opsMax: 3, mapW: allMapW, fillBias: "threshold", hashers: defaultHashers},
	"C05": {prop: "C05", kinds: []string{"map", "mapof", "cache", "cacheof"}, hotMax: 2, thrMin: 2, thrMax: 4, opsMax: 2, oneKey: true,
		mapW: []wk{{model.MLoadOrStore, 10}, {model.MLoadOrCompute, 12}, {model.MCompute, 10}, {model.MLoadAndStore, 8}, {model.MStore, 2}, {model.MLoadAndDelete, 3}, {model.MLoad, 2}},
		cacheW: []wk{{model.CGetOrSet, 10}, {model.CGetOrCompute, 12}, {model.CCompute, 10}, {model.CGetAndSet, 8}, {model.CGetAndRefresh, 6}, {model.CSet, 2}, {model.CGetAndDelete, 3}, {model.CGet, 2}},
		fillBias: "threshold", hashers: defaultHashers},
	"C06": {prop: "C06", kinds: []string{"cache", "cacheof"}, hotMax: 2, thrMin: 2, thrMax: 3, opsMax: 3, cbAlways: true,
		cacheW: []wk{{model.CDelete, 10}, {model.CGetAndDelete, 10}, {model.CDeleteExpired, 14}, {model.CSet, 8}, {model.CGetAndSet, 5}, {model.CCompute, 6}, {model.CGet, 4}, {model.CGetOrSet, 3}, {model.CClear, 2}, {model.CGetAndRefresh, 2}, {model.CSetCallback, 5}, {model.CSetDefaultExp, 3}}},
	"C07": {prop: "C07", kinds: []string{"map", "mapof", "cache", "cacheof"}, hotMax: 3, thrMin: 2, thrMax: 3, opsMax: 3, traverser: true,
		mapW:   []wk{{model.MStore, 10}, {model.MDelete, 8}, {model.MLoadAndDelete, 4}, {model.MCompute, 6}, {model.MLoadOrStore, 4}, {model.MClear, 5}, {model.MRange, 6}, {model.MLoadAndStore, 3}},
		cacheW: []wk{{model.CSet, 10}, {model.CDelete, 8}, {model.CGetAndDelete, 4}, {model.CCompute, 6}, {model.CGetOrSet, 4}, {model.CClear, 5}, {model.CRange, 4}, {model.CItems, 4}, {model.CDeleteExpired, 4}, {model.CGetAndSet, 3}},
		fillBias: "threshold", hashers: defaultHashers},
	"C08": {prop: "C08", kinds: []string{"map", "mapof", "cache", "cacheof"}, hotMax: 2, thrMin: 2, thrMax: 4, opsMax: 3,
		mapW:   []wk{{model.MStore, 10}, {model.MDelete, 10}, {model.MLoadAndDelete, 6}, {model.MCompute, 8}, {model.MLoadOrStore, 6}, {model.MClear, 4}, {model.MSize, 3}, {model.MLoadOrCompute, 4}},
		cacheW: []wk{{model.CSet, 10}, {model.CDelete, 10}, {model.CGetAndDelete, 6}, {model.CCompute, 8}, {model.CGetOrSet, 6}, {model.CClear, 4}, {model.CCount, 3}, {model.CDeleteExpired, 5}, {model.CGetAndRefresh, 3}, {model.CGet, 3}},
		fillBias: "threshold", hashers: defaultHashers},
	// C09 under concurrency: SetDefaultExpiration racing the calls that resolve the DefaultExpiration sentinel, and
	// the readers of the resulting instants (TTL arguments biased to the sentinel)
	"C09": {prop: "C09", kinds: []string{"cache", "cacheof"}, hotMax: 2, thrMin: 2, thrMax: 3, opsMax: 3,
		cacheW: []wk{{model.CSetDefaultExp, 14}, {model.CSetDefault, 14}, {model.CSet, 8}, {model.CGetOrSet, 5}, {model.CGetAndSet, 4}, {model.CGetAndRefresh, 6}, {model.CGetOrCompute, 3},
			{model.CCompute, 4}, {model.CGetTTL, 14}, {model.CGetExp, 8}, {model.CDefaultExp, 3}, {model.CGet, 4}, {model.CSetCallback, 6}, {model.CDelete, 3}}},
	"C13": {prop: "C13", kinds: []string{"map", "mapof", "cache", "cacheof"}, hotMax: 3, thrMin: 2, thrMax: 4, opsMax: 3,
		mapW:   []wk{{model.MStore, 8}, {model.MDelete, 6}, {model.MCompute, 10}, {model.MLoadOrStore, 5}, {model.MLoadOrCompute, 5}, {model.MClear, 10}, {model.MRange, 8}, {model.MLoadAndDelete, 5}, {model.MLoad, 2}, {model.MLoadAndStore, 3}},
		cacheW: []wk{{model.CSet, 8}, {model.CDelete, 6}, {model.CCompute, 10}, {model.CGetOrSet, 5}, {model.CGetOrCompute, 5}, {model.CClear, 10}, {model.CRange, 5}, {model.CItems, 3}, {model.CDeleteExpired, 8}, {model.CGetAndDelete, 5}, {model.CGet, 3}, {model.CGetAndRefresh, 4}, {model.CGetAndSet, 3}},
		fillBias: "threshold", hashers: defaultHashers, cbAlways: false},
}

// rapid's integer and SampledFrom generators are deliberately biased towards
// small values (geometric bit length); weights would be distorted badly. Ten fair
// coin flips give a uniform choice that still shrinks towards the first option.
var bits10 = rapid.SliceOfN(rapid.Bool(), 10, 10)

func uniform(rt *rapid.T, n int, label string) int {
	if n <= 1 {
		return 0
	}
	v := 0
	for _, b := range bits10.Draw(rt, label) {
		v <<= 1
		if b {
			v |= 1
		}
	}
	return v * n / 1024
}

func pick[T any](rt *rapid.T, xs []T, label string) T { return xs[uniform(rt, len(xs), label)] }

// irange is a uniform integer in [lo,hi] (hi-lo < 1024).
func irange(rt *rapid.T, lo, hi int, label string) int { return lo + uniform(rt, hi-lo+1, label) }

func pickKind(rt *rapid.T, ws []wk, label string) model.Kind {
	tot := 0
	for _, w := range ws {
		tot += w.w
	}
	x := uniform(rt, tot, label)
	for _, w := range ws {
		if x < w.w {
			return w.k
		}
		x -= w.w
	}
	return ws[0].k
}

var ttlArgs = []int64{model.NoExpiration, model.DefaultExpiration, 0, -1, 1, 30, 1000, 1000000}

func genSpec(rt *rapid.T, pf *profile) adapt.Spec {
	kind := pick(rt, pf.kinds, "container")
	s := adapt.Spec{Kind: kind}
	switch kind {
	case "map":
		if irange(rt, 0, 9, "presized") == 0 {
			s.Presize = pick(rt, []int{-5, 1, 97, 200}, "presize")
		}
		s.GrowOnly = irange(rt, 0, 7, "growOnly") == 0
	case "mapof":
		s.Key = pick(rt, []string{"int", "int", "string", "struct"}, "keytype")
		hs := pf.hashers
		if len(hs) == 0 {
			hs = []string{""}
		}
		s.Hasher = pick(rt, hs, "hasher")
		if irange(rt, 0, 9, "presized") == 0 {
			s.Presize = pick(rt, []int{-5, 1, 161, 300}, "presize")
		}
		s.GrowOnly = irange(rt, 0, 7, "growOnly") == 0
	case "cache", "cacheof":
		if kind == "cacheof" {
			s.Key = pick(rt, []string{"int", "string"}, "keytype")
		}
		if rapid.Bool().Draw(rt, "ctorDefault") {
			s.Ctor = "default"
			s.DefExp = pick(rt, []int64{0, -1, 40, 5000}, "defexp")
		} else if rapid.Bool().Draw(rt, "hasdef") {
			s.HasDef = true
			s.DefExp = pick(rt, []int64{0, 40, 5000}, "defexp")
		}
		s.CB = pf.cbAlways || rapid.Bool().Draw(rt, "callback")
		if s.CB {
			s.Reenter = uint8(irange(rt, 0, 3, "reenter"))
		}
		if irange(rt, 0, 3, "janitorCfg") == 0 {
			s.Cleanup = 10000000000
		}
	}
	return s
}

// slotsPerBucket / grow threshold on the 32-bucket floor (steering only; the
// oracle never depends on these numbers).
func thresholds(s adapt.Spec) (grow, shrinkFill int) {
	if s.Kind == "map" || s.Kind == "cache" {
		return 72, 100
	}
	return 120, 160
}

func genFill(rt *rapid.T, pf *profile, s adapt.Spec) (fill, keep int) {
	grow, shr := thresholds(s)
	if s.Hasher == "const" || s.Hasher == "samebucket" {
		// one chain: small fills build every chain shape; big fills reach the grow threshold
		c := irange(rt, 0, 9, "fillClass")
		switch {
		case c < 2:
			return 0, 0
		case c < 6:
			f := irange(rt, 1, 12, "fill")
			return f, f
		case c < 8:
			f := irange(rt, grow-2, grow+6, "fill")
			return f, f
		default:
			if rapid.Bool().Draw(rt, "byteWidthChain") {
				// a chain of 250-266 entries: every count, index or offset the library keeps per chain in a
				// byte wraps here (the hot keys land beyond the 255th overflow entry)
				f := irange(rt, 250, 266, "fill")
				return f, f
			}
			f := irange(rt, grow+2, grow+10, "fill")
			return f, irange(rt, 0, 2, "keep")
		}
	}
	c := irange(rt, 0, 9, "fillClass")
	switch {
	case c < 2:
		return 0, 0
	case c < 4:
		f := irange(rt, 1, 24, "fill")
		return f, f
	case c < 8:
		// around the grow threshold: chains are full and the next chain-full insert grows the table
		f := irange(rt, grow-12, grow+24, "fill")
		return f, f
	default:
		// grown once, then emptied: the phase's deletes trigger the shrink
		f := irange(rt, shr, shr+16, "fill")
		return f, irange(rt, 0, 3, "keep")
	}
}

func genProgram(rt *rapid.T, pf *profile) *Program {
	p := &Program{}
	p.Spec = genSpec(rt, pf)
	p.Layout = rapid.Uint64().Draw(rt, "layoutSeed")
	p.Seed = rapid.Uint64().Draw(rt, "schedSeed")
	p.Hot = irange(rt, 1, pf.hotMax, "hot")
	p.Fill, p.Keep = genFill(rt, pf, p.Spec)
	if pf.fillBias == "threshold" && p.Spec.Hasher != "const" && p.Spec.Hasher != "samebucket" && p.Spec.Presize <= 96 {
		switch irange(rt, 0, 9, "mode") {
		case 0, 1, 2:
			p.Mode = "grow"
			grow, _ := thresholds(p.Spec)
			p.Fill, p.Keep = grow-8, grow-8
		case 3, 4:
			p.Mode = "shrink"
			p.Fill = 1
			// sizes that leave the table just above the shrink threshold until a hot key is deleted
			p.Hot = 2
			p.Keep = 0
			if s := p.Spec.Kind; s == "mapof" || s == "cacheof" {
				p.Keep = irange(rt, 0, 1, "keep")
			}
		}
	}
	if (p.Spec.Kind == "map" || p.Spec.Kind == "cache") && p.Mode == "" && p.Spec.Presize <= 96 && irange(rt, 0, 5, "topHashCollision") == 0 {
		// two hot keys that share bucket and top hash; the table must stay at its initial 32 buckets
		p.Collide = true
		p.Hot = 3
		if p.Fill > 40 {
			p.Fill, p.Keep = irange(rt, 0, 30, "smallFill"), 0
			p.Keep = p.Fill
		}
	}
	next := 1
	val := func() int { next++; return next - 1 }
	isCache := p.Spec.IsCache()
	// prefix: initial state of each hot key
	expiring := false
	for k := 0; k < p.Hot; k++ {
		if p.Mode == "grow" && k == 0 {
			continue // k0 absent: its first insert is the grow trigger
		}
		if p.Mode == "shrink" {
			if isCache {
				p.Pre = append(p.Pre, model.Op{K: model.CSetForever, Key: k, Val: val()})
			} else {
				p.Pre = append(p.Pre, model.Op{K: model.MStore, Key: k, Val: val()})
			}
			continue
		}
		if isCache {
			switch irange(rt, 0, 5, "init") {
			case 0: // absent
			case 1:
				p.Pre = append(p.Pre, model.Op{K: model.CSetForever, Key: k, Val: val()})
			case 2:
				p.Pre = append(p.Pre, model.Op{K: model.CSet, Key: k, Val: val(), D: 100}) // stays live
				expiring = true
			default: // expired-uncleaned by the time the phase starts
				p.Pre = append(p.Pre, model.Op{K: model.CSet, Key: k, Val: val(), D: int64(irange(rt, 1, 50, "shortTTL"))})
				expiring = true
			}
		} else if irange(rt, 0, 2, "init") > 0 {
			p.Pre = append(p.Pre, model.Op{K: model.MStore, Key: k, Val: val()})
		}
	}
	if expiring {
		p.Pre = append(p.Pre, model.Op{K: model.HAdvance, D: 51})
		if irange(rt, 0, 4, "preTouch") == 0 {
			// a read that may or may not have cleaned an expired entry
			p.Pre = append(p.Pre, model.Op{K: model.CGet, Key: irange(rt, 0, p.Hot-1, "touchKey")})
		}
	}
	ttls := ttlArgs
	if pf.prop == "C09" {
		ttls = []int64{model.DefaultExpiration, model.DefaultExpiration, model.DefaultExpiration, model.NoExpiration, 30, 1000}
	}
	if isCache && irange(rt, 0, 2, "tickingClock") == 0 {
		// time passes while calls run: tiny TTLs expire during the concurrent phase
		p.Tick = true
		if p.Spec.Reenter == 1 || p.Spec.Reenter == 3 {
			// a Get from inside the callback would lazily delete entries that expired meanwhile
			// (an un-modelled call); keep only the non-modifying re-entry
			p.Spec.Reenter = 2
		}
		ttls = []int64{model.NoExpiration, model.DefaultExpiration, 1, 2, 3, 5, 8, 1, 2}
	}
	nthr := irange(rt, pf.thrMin, pf.thrMax, "threads")
	for t := 0; t < nthr; t++ {
		nops := irange(rt, 1, pf.opsMax, "nops")
		var ops []model.Op
		for i := 0; i < nops; i++ {
			var o model.Op
			if isCache {
				o.K = pickKind(rt, pf.cacheW, "op")
			} else {
				o.K = pickKind(rt, pf.mapW, "op")
			}
			if pf.traverser && t == 0 && i == 0 {
				if isCache {
					o.K = pick(rt, []model.Kind{model.CRange, model.CItems}, "trav")
				} else {
					o.K = model.MRange
				}
			}
			if !pf.oneKey {
				o.Key = irange(rt, 0, p.Hot-1, "key")
			} else if p.Hot > 1 && irange(rt, 0, 4, "mateKey") == 0 {
				o.Key = 1 // a writer on a bucket mate / neighbouring key of the raced key
			}
			if i == 0 && t == nthr-1 && p.Mode == "grow" {
				// the grow trigger: an insert of absent k0
				o.Key = 0
				if isCache {
					o.K = pick(rt, []model.Kind{model.CSet, model.CGetOrSet, model.CGetAndSet, model.CGetOrCompute, model.CCompute}, "trigger")
				} else {
					o.K = pick(rt, []model.Kind{model.MStore, model.MLoadOrStore, model.MLoadAndStore, model.MLoadOrCompute, model.MCompute}, "trigger")
				}
			}
			if i == 0 && p.Mode == "shrink" && (t == nthr-1 || rapid.Bool().Draw(rt, "alsoDelete")) {
				o.Key = t % p.Hot
				if isCache {
					o.K = pick(rt, []model.Kind{model.CDelete, model.CGetAndDelete, model.CCompute}, "trigger")
				} else {
					o.K = pick(rt, []model.Kind{model.MDelete, model.MLoadAndDelete, model.MCompute}, "trigger")
				}
			}
			switch o.K {
			case model.MStore, model.MLoadOrStore, model.MLoadAndStore, model.MLoadOrCompute, model.CSetDefault, model.CSetForever:
				o.Val = val()
			case model.MCompute:
				o.Val = val()
				o.Fn = uint8(irange(rt, 0, 3, "fn"))
			case model.CSet, model.CGetOrSet, model.CGetAndSet, model.CGetOrCompute:
				o.Val = val()
				o.D = pick(rt, ttls, "ttl")
			case model.CCompute:
				o.Val = val()
				o.Fn = uint8(irange(rt, 0, 3, "fn"))
				o.D = pick(rt, ttls, "ttl")
			case model.CGetAndRefresh:
				o.D = pick(rt, ttls, "ttl")
			case model.CSetDefaultExp:
				o.D = pick(rt, []int64{model.NoExpiration, 0, 25, 777}, "newDefault")
			case model.CSetCallback:
				o.On = rapid.Bool().Draw(rt, "install")
				if o.On {
					o.N = irange(rt, 1, 2, "whichCallback")
				}
			case model.MRange, model.CRange:
				if irange(rt, 0, 4, "stopEarly") == 0 {
					o.N = irange(rt, 1, 2, "stopAfter")
				}
			}
			if i == 0 && p.Mode == "grow" && t == nthr-1 && (o.K == model.MCompute || o.K == model.CCompute) {
				o.Fn = model.FnStore
			}
			if i == 0 && p.Mode == "shrink" && (o.K == model.MCompute || o.K == model.CCompute) && o.Key == t%p.Hot {
				o.Fn = model.FnDelete
			}
			ops = append(ops, o)
		}
		p.Threads = append(p.Threads, ops)
	}
	return p
}
