package props

import (
	"github.com/fufuok/cache/zzverif/adapt"
	"github.com/fufuok/cache/zzverif/model"
	"github.com/fufuok/cache/zzverif/stats"
	"github.com/fufuok/cache/zzverif/vs"
)

// Budget of schedules explored per program.
type sweepCfg struct {
	maxSingle int  // cap on single-preemption schedules per program
	pct3      int  // sampled PCT schedules with 2 change points
	pct4      int  // sampled PCT schedules with 3 change points
	walks     int  // random walks
	double    bool // exhaustive double-preemption sweep (micro programs, thorough tier)
	maxDouble int
}

type rng struct{ s uint64 }

func (r *rng) next() uint64 {
	r.s += 0x9e3779b97f4a7c15
	z := r.s
	z = (z ^ (z >> 30)) * 0xbf58476d1ce4e5b9
	z = (z ^ (z >> 27)) * 0x94d049bb133111eb
	return z ^ (z >> 31)
}
func (r *rng) intn(n int) int {
	if n <= 0 {
		return 0
	}
	return int(r.next() % uint64(n))
}

type explorer struct {
	p       *Program
	cfg     sweepCfg
	prop    string
	verdict map[string]bool // history signature -> already checked OK
	execs   int
	ntSeen  int
	opts    execOpts
	lastOut *Outcome
}

// runOne executes one schedule; returns the violation if any.
func (e *explorer) runOne(s *Sched, gen string) *Violation {
	o := e.opts
	out := executeMemo(e, s, o)
	e.execs++
	e.lastOut = out
	stats.Inc("executions")
	stats.Inc("schedules_" + gen)
	if out.R != nil {
		stats.Add("context_switches", int64(out.R.AllSwitches))
		stats.Add("preemptive_switches", int64(out.R.Switches))
		stats.Max("max_points_per_execution", int64(out.R.Total))
	}
	for c := range out.Classes {
		stats.Inc("class_" + c)
	}
	if out.NT {
		e.ntSeen++
		stats.Inc("nontrivial_executions")
		b, _ := jsonMarshal(s)
		stats.NonTrivial(stats.Hash64(e.p.Canon(), string(b)))
	}
	if out.Viol != nil {
		out.Viol.Property = e.prop
		return out.Viol
	}
	return nil
}

// executeMemo is execute with the linearizability verdict memoised per history signature.
func executeMemo(e *explorer, s *Sched, o execOpts) *Outcome {
	o2 := o
	o2.noLin = true
	out := execute(e.p, s, o2)
	if out.Viol != nil || o.noLin {
		return out
	}
	sig := historySig(out.Recs)
	if e.verdict[sig] {
		stats.Inc("lin_memo_hits")
		return out
	}
	// re-run the check part only: rebuild from records (execute with lin on would re-execute the program)
	finishLin(e.p, s, out)
	if out.Viol == nil {
		e.verdict[sig] = true
	}
	stats.Inc("lin_checks")
	stats.Add("lin_nodes", int64(out.LinNodes))
	return out
}

func identity(n int) []int {
	o := make([]int, n)
	for i := range o {
		o[i] = i
	}
	return o
}

func rotations(n int) [][]int {
	var out [][]int
	for f := 0; f < n; f++ {
		o := []int{f}
		for i := 0; i < n; i++ {
			if i != f {
				o = append(o, i)
			}
		}
		out = append(out, o)
		if n > 2 {
			// and with the rest reversed
			r := []int{f}
			for i := n - 1; i >= 0; i-- {
				if i != f {
					r = append(r, i)
				}
			}
			out = append(out, r)
		}
	}
	return out
}

// explore runs the schedule generators over one program and returns the first violation.
func (e *explorer) explore() *Violation {
	n := len(e.p.Threads)
	e.verdict = map[string]bool{}
	e.resolve()
	// 1. non-preemptive baselines, every thread first
	base := make([]int, n) // steps of thread t when it runs first
	total := 0
	for _, ord := range rotations(n) {
		s := &Sched{Kind: "np", Order: ord}
		e.opts.budget = 3000000
		if v := e.runOne(s, "nonpreemptive"); v != nil {
			return v
		}
		r := e.lastOut.R
		if r.Steps[ord[0]] > base[ord[0]] {
			base[ord[0]] = r.Steps[ord[0]]
		}
		if r.Total > total {
			total = r.Total
		}
	}
	e.opts.budget = 60*total + 20000
	stats.Max("max_baseline_points", int64(total))
	r := &rng{s: e.p.Seed}
	// 2. single-preemption sweep: thread t first, preempted at its k-th point until the others finished or blocked
	perThread := e.cfg.maxSingle / n
	for _, ord := range rotations(n) {
		t := ord[0]
		if n > 2 && ord[1] > ord[len(ord)-1] {
			// for >2 threads the reversed rotation gets a thinner sweep
			if perThread > 40 {
				perThread = perThread / 3
			}
		}
		steps := base[t]
		stride := 1
		off := 0
		if steps > perThread && perThread > 0 {
			stride = (steps + perThread - 1) / perThread
			off = r.intn(stride)
		}
		for k := 1 + off; k <= steps; k += stride {
			s := &Sched{Kind: "pct", Prio: prioFromOrder(ord), Changes: []vs.Change{{Thread: t, Step: k}}}
			if v := e.runOne(s, "single_preemption"); v != nil {
				return v
			}
			// kind-directed second preemption: if somebody waited on / signalled the resize condition in
			// that run, also pause every other thread at its first Cond.Wait (between the flag check and
			// the enqueue) resp. at its first Broadcast — the windows of lost wake-ups
			r := e.lastOut.R
			if r == nil {
				continue
			}
			var kinds []int
			if r.CondWaits > 0 {
				kinds = append(kinds, int(vs.KCondWait))
			}
			if r.Broadcasts > 0 && r.Blocks+r.CondWaits > 0 {
				kinds = append(kinds, int(vs.KCondSignal))
			}
			for _, kd := range kinds {
				for _, o := range ord[1:] {
					s2 := &Sched{Kind: "pct", Prio: prioFromOrder(ord), Changes: []vs.Change{{Thread: t, Step: k}, {Thread: o, Step: 1, Kind: kd}}}
					if v := e.runOne(s2, "kind_directed_double_preemption"); v != nil {
						return v
					}
				}
			}
		}
	}
	// 3. sampled deeper PCT schedules
	for i := 0; i < e.cfg.pct3+e.cfg.pct4; i++ {
		d := 2
		if i >= e.cfg.pct3 {
			d = 3
		}
		ord := permute(r, n)
		var ch []vs.Change
		for j := 0; j < d; j++ {
			t := r.intn(n)
			lim := base[t] + 8
			ch = append(ch, vs.Change{Thread: t, Step: 1 + r.intn(lim)})
		}
		s := &Sched{Kind: "pct", Prio: prioFromOrder(ord), Changes: ch}
		if v := e.runOne(s, "pct_sampled"); v != nil {
			return v
		}
	}
	// 4. random walks
	dens := []uint64{2, 8, 32}
	for i := 0; i < e.cfg.walks; i++ {
		s := &Sched{Kind: "rw", Seed: r.next(), Den: dens[i%len(dens)]}
		if v := e.runOne(s, "random_walk"); v != nil {
			return v
		}
	}
	// 5. exhaustive double-preemption sweep on micro programs
	if e.cfg.double && n == 2 && total <= 160 {
		cnt := 0
		for _, ord := range rotations(n) {
			a, b := ord[0], ord[1]
			for k1 := 1; k1 <= base[a]; k1++ {
				for k2 := 1; k2 <= base[b]+4; k2++ {
					if cnt >= e.cfg.maxDouble {
						break
					}
					cnt++
					s := &Sched{Kind: "pct", Prio: prioFromOrder(ord), Changes: []vs.Change{{Thread: a, Step: k1}, {Thread: b, Step: k2}}}
					if v := e.runOne(s, "double_preemption"); v != nil {
						return v
					}
				}
			}
		}
	}
	return nil
}

func permute(r *rng, n int) []int {
	o := identity(n)
	for i := n - 1; i > 0; i-- {
		j := r.intn(i + 1)
		o[i], o[j] = o[j], o[i]
	}
	return o
}

// probeSpec is a bare map with the placement of the program's container (same
// seeds, same keys, same table size), whose Stats() are observable.
func probeSpec(p *Program) adapt.Spec {
	s := p.Spec
	switch s.Kind {
	case "cache":
		ps := adapt.Spec{Kind: "map", Presize: 96, GrowOnly: s.GrowOnly}
		if s.Presize > 96 {
			ps.Presize = s.Presize
		}
		return ps
	case "cacheof":
		ps := adapt.Spec{Kind: "mapof", Key: s.Key, Presize: 96, GrowOnly: s.GrowOnly}
		if s.Presize > 96 {
			ps.Presize = s.Presize
		}
		return ps
	}
	return s
}

// resolve steers the fill level by probing an identically seeded container
// (placement is a function of layout seed and process, so the probe sees what
// the real run will see). Only the generator is steered; no oracle depends on it.
func (e *explorer) resolve() {
	p := e.p
	p.effFill, p.effKeep = 0, 0
	p.Spec.Alias = nil
	if p.Collide && (p.Spec.Kind == "map" || p.Spec.Kind == "cache") && p.Hot >= 3 {
		if a, b, ok := adapt.CollidingStringKeys(p.Layout, 32); ok {
			p.Spec.Alias = map[int]int{0: a, 2: b}
			stats.Inc("steered_tophash_collision_programs")
		}
	}
	if p.Mode == "" {
		return
	}
	ps := probeSpec(p)
	store := func(api adapt.API, k int) {
		o := model.Op{K: model.MStore, Key: k, Val: 1}
		api.Do(&o)
	}
	switch p.Mode {
	case "grow":
		for f := p.Fill; f < p.Fill+140; f++ {
			vs.SetLayoutSeed(p.Layout)
			api := adapt.New(ps)
			bs := model.Op{K: model.HBulkSet, Key: ColdBase, N: f, Val: ColdVal}
			api.Do(&bs)
			for _, o := range p.Pre {
				if o.K != model.HAdvance && o.K != model.CGet {
					store(api, o.Key)
				}
			}
			g0, _, _ := api.Stats()
			store(api, 0)
			g1, _, _ := api.Stats()
			if g1 > g0 {
				p.effFill, p.effKeep = f, f
				stats.Inc("steered_grow_programs")
				return
			}
		}
	case "shrink":
		vs.SetLayoutSeed(p.Layout)
		api := adapt.New(ps)
		for f := 1; f < 400; f++ {
			store(api, ColdBase+f-1)
			if g, _, _ := api.Stats(); g >= 1 && f >= p.Fill {
				p.effFill, p.effKeep = f, p.Keep
				stats.Inc("steered_shrink_programs")
				return
			}
		}
	}
}
