package props

import (
	"math"
	"github.com/fufuok/cache/zzverif/model"
	"github.com/fufuok/cache/zzverif/stats"
	"pgregory.net/rapid"
)

// C16: reads never wait for writers. Thread 0 (W) executes one modifying call
// and is stalled at every one of its scheduling points in turn (and inside its
// user function); while it is stalled thread 1 (R) runs alone and must finish
// its lookups without ever blocking or spinning, within a bound on its own
// steps; the whole history must still be linearizable.

func genC16(rt *rapid.T) *Program {
	pf := &profile{prop: "C16", kinds: []string{"map", "mapof", "cache", "cacheof"}, hotMax: 3, fillBias: "threshold", hashers: defaultHashers}
	p := &Program{}
	p.Spec = genSpec(rt, pf)
	p.Layout = rapid.Uint64().Draw(rt, "layoutSeed")
	p.Seed = rapid.Uint64().Draw(rt, "schedSeed")
	p.Hot = 3
	p.Fill, p.Keep = genFill(rt, pf, p.Spec)
	isCache := p.Spec.IsCache()
	next := 1
	val := func() int { next++; return next - 1 }
	mode := irange(rt, 0, 9, "mode")
	steerable := p.Spec.Hasher != "const" && p.Spec.Hasher != "samebucket" && p.Spec.Presize <= 96
	switch {
	case mode < 3 && steerable:
		p.Mode = "grow"
		grow, _ := thresholds(p.Spec)
		p.Fill, p.Keep = grow-8, grow-8
	case mode < 5 && steerable:
		p.Mode = "shrink"
		p.Fill, p.Keep = 1, 0
		if k := p.Spec.Kind; k == "mapof" || k == "cacheof" {
			p.Keep = 1
		}
	}
	if (p.Spec.Kind == "map" || p.Spec.Kind == "cache") && p.Mode == "" && p.Spec.Presize <= 96 && irange(rt, 0, 3, "topHashCollision") == 0 {
		p.Collide = true // k0 and k2 share bucket and top hash (R often looks up k2 while W holds k0's bucket)
		if p.Fill > 40 {
			p.Fill = irange(rt, 0, 30, "smallFill")
			p.Keep = p.Fill
		}
	}
	// hot keys: k0 is W's key; k1,k2 are stable (W never touches them)
	present := make([]bool, p.Hot)
	for k := 0; k < p.Hot; k++ {
		pr := rapid.Bool().Draw(rt, "present")
		if p.Mode == "grow" && k == 0 {
			pr = false
		}
		if p.Mode == "shrink" {
			pr = k <= 1 // sizes that sit just above the shrink threshold until W deletes k0
		}
		present[k] = pr
		if pr {
			if isCache {
				// the last two: now+d wraps around int64 (a negative stamp: the library treats it as "never expires")
				d := pick(rt, []int64{model.NoExpiration, 1000000, 5000, math.MaxInt64, math.MaxInt64 - 1600000000000000000}, "ttl")
				p.Pre = append(p.Pre, model.Op{K: model.CSet, Key: k, Val: val(), D: d})
			} else {
				p.Pre = append(p.Pre, model.Op{K: model.MStore, Key: k, Val: val()})
			}
		}
	}
	// W
	var w model.Op
	if isCache {
		ks := []model.Kind{model.CSet, model.CGetOrSet, model.CGetAndSet, model.CGetAndRefresh, model.CGetOrCompute, model.CCompute, model.CCompute,
			model.CGetAndDelete, model.CDelete, model.CDeleteExpired, model.CClear, model.CRange, model.CGetOrCompute}
		w.K = pick(rt, ks, "wop")
		switch p.Mode {
		case "grow":
			w.K = pick(rt, []model.Kind{model.CSet, model.CGetOrSet, model.CGetAndSet, model.CGetOrCompute, model.CCompute}, "wopGrow")
		case "shrink":
			w.K = pick(rt, []model.Kind{model.CDelete, model.CGetAndDelete, model.CCompute}, "wopShrink")
		}
		w.D = pick(rt, []int64{model.NoExpiration, model.DefaultExpiration, 1000000, 0}, "wttl")
	} else {
		ks := []model.Kind{model.MStore, model.MLoadOrStore, model.MLoadAndStore, model.MLoadOrCompute, model.MCompute, model.MCompute,
			model.MLoadAndDelete, model.MDelete, model.MClear, model.MRange, model.MLoadOrCompute}
		w.K = pick(rt, ks, "wop")
		switch p.Mode {
		case "grow":
			w.K = pick(rt, []model.Kind{model.MStore, model.MLoadOrStore, model.MLoadAndStore, model.MLoadOrCompute, model.MCompute}, "wopGrow")
		case "shrink":
			w.K = pick(rt, []model.Kind{model.MDelete, model.MLoadAndDelete, model.MCompute}, "wopShrink")
		}
	}
	w.Key = 0
	w.Val = val()
	switch w.K {
	case model.MCompute, model.CCompute:
		w.Fn = uint8(irange(rt, 0, 3, "fn"))
		if p.Mode == "grow" {
			w.Fn = model.FnStore
		}
		if p.Mode == "shrink" {
			w.Fn = model.FnDelete
		}
		w.Park = true
	case model.MLoadOrCompute, model.CGetOrCompute:
		w.Park = true
	}
	// default expiration must not make W's value expire at once
	if isCache && p.Spec.HasDef || p.Spec.Ctor == "default" {
		if p.Spec.DefExp > 0 && p.Spec.DefExp < 1000 {
			p.Spec.DefExp = 5000
		}
	}
	// R
	nr := irange(rt, 1, 3, "nreads")
	var rs []model.Op
	for i := 0; i < nr; i++ {
		var o model.Op
		o.Key = irange(rt, 0, p.Hot-1, "rkey")
		if isCache {
			o.K = pick(rt, []model.Kind{model.CGet, model.CGet, model.CGetExp, model.CGetTTL, model.CCount}, "rop")
		} else {
			o.K = pick(rt, []model.Kind{model.MLoad, model.MLoad, model.MLoadOrStore, model.MLoadOrCompute, model.MSize}, "rop")
			if o.K == model.MLoadOrStore || o.K == model.MLoadOrCompute {
				// hit path only: a stable present key that W cannot remove
				if w.K == model.MClear {
					o.K = model.MLoad
				} else {
					o.Key = 0
					for _, k := range []int{1, 2} {
						if present[k] {
							o.Key = k
						}
					}
					if o.Key == 0 {
						o.K = model.MLoad
					} else {
						o.Val = val()
					}
				}
			}
		}
		rs = append(rs, o)
	}
	p.Threads = [][]model.Op{{w}, rs}
	return p
}

func exploreStall(p *Program) (*Violation, int, int) {
	e := &explorer{p: p, prop: "C16"}
	e.verdict = map[string]bool{}
	e.resolve()
	e.opts.budget = 3000000
	// baselines: R alone first (its quiescent cost), W alone first
	if v := e.runOne(&Sched{Kind: "np", Order: []int{1, 0}}, "nonpreemptive"); v != nil {
		return v, e.execs, e.ntSeen
	}
	rsteps := e.lastOut.R.Steps[1]
	if v := e.runOne(&Sched{Kind: "np", Order: []int{0, 1}}, "nonpreemptive"); v != nil {
		return v, e.execs, e.ntSeen
	}
	wsteps := e.lastOut.R.Steps[0]
	// own-step bound of the reader: generous in the length of the longest possible bucket chain (chain
	// buckets are never unlinked, so a miss may have to walk every bucket the prefix ever created),
	// independent of anything the stalled writer does. Blocking or yielding is flagged at once by the
	// decider; this bound only catches a reader that busy-loops without yielding.
	fill := p.Fill
	if p.effFill > fill {
		fill = p.effFill
	}
	bound := 4*rsteps + 64 + len(p.Threads[1])*12*(fill+8)
	e.opts.budget = 60*(rsteps+wsteps) + 20000
	stats.Max("max_writer_points", int64(wsteps))
	resizing := e.lastOut.Classes["resize-or-clear-completed"]
	for k := 1; k <= wsteps; k++ {
		s := &Sched{Kind: "stall", Park: k, Max: bound}
		if v := e.runOne(s, "stall_at_point"); v != nil {
			return v, e.execs, e.ntSeen
		}
		if resizing {
			stats.Inc("stalls_in_call_that_resizes_or_clears")
		}
	}
	if p.Threads[0][0].Park {
		s := &Sched{Kind: "stall", Park: -1, Max: bound}
		if v := e.runOne(s, "stall_in_user_function"); v != nil {
			return v, e.execs, e.ntSeen
		}
	}
	return nil, e.execs, e.ntSeen
}
