package props

import (
	"encoding/json"
	"fmt"
	"math"
	"reflect"
	"sort"
	"strconv"
	"strings"
	"time"

	cache "github.com/fufuok/cache"
	"github.com/fufuok/cache/zzverif/adapt"
	"github.com/fufuok/cache/zzverif/model"
	"github.com/fufuok/cache/zzverif/stats"
	"github.com/fufuok/cache/zzverif/vs"
	"pgregory.net/rapid"
)

// C12: Cache == CacheOf[string, interface{}] and Map == MapOf[string, interface{}],
// observationally. One generated program runs on both twins in lock-step under
// the same virtual clock; every return value, callback and content must be equal.

// tval maps a value id to an arbitrary interface{} value (nil included).
func tval(id int) interface{} {
	switch id % 11 {
	case 7:
		return []int{id, id + 1} // uncomparable dynamic types are legal VALUES
	case 8:
		return map[string]int{"v": id}
	case 9:
		return math.Copysign(0, -1)
	case 10:
		return 0.0
	}
	switch id % 7 {
	case 0:
		return nil
	case 1:
		return "s" + strconv.Itoa(id)
	case 2:
		return [2]int{id, -id}
	case 3:
		return float64(id) / 2
	}
	return id
}

// fnKeep: the Compute function returns the old value unchanged (twin harness only).
const fnKeep uint8 = 4

type tobs struct {
	V   interface{}
	OK  bool
	T   int64
	Fn  []string
	Ev  []string
	Vis []string
	P   string
}

func (o tobs) String() string {
	return fmt.Sprintf("(%#v,%v,t=%d) fn%v evicted%v visited(%d)%v panic=%q", o.V, o.OK, o.T, o.Fn, o.Ev, len(o.Vis), trunc(o.Vis, 10), o.P)
}

func trunc(x []string, n int) []string {
	if len(x) > n {
		return x[:n]
	}
	return x
}

type twin interface {
	do(o *model.Op) tobs
	name() string
}

// tkey: key ids 1 and 2 are edge keys (the empty string; a key of 300 bytes), everything else is short.
func tkey(i int) string {
	switch i {
	case 1:
		return ""
	case 2:
		return strings.Repeat("long-key/", 33) + "2"
	}
	return "k" + strconv.Itoa(i)
}

func tns(t time.Time) int64 {
	if t.IsZero() {
		return 0
	}
	return t.UnixNano()
}

// ---- cache twins ----

type twCache struct {
	c  cache.Cache
	ev *[]string
}

type twCacheOf struct {
	c  cache.CacheOf[string, interface{}]
	ev *[]string
}

func (t *twCache) name() string   { return "Cache" }
func (t *twCacheOf) name() string { return "CacheOf[string,interface{}]" }

func (t *twCache) do(o *model.Op) (r tobs) {
	defer func() {
		if p := recover(); p != nil {
			r.P = fmt.Sprint(p)
		}
	}()
	*t.ev = nil
	k, d, c := tkey(o.Key), time.Duration(o.D), t.c
	switch o.K {
	case model.CSet:
		c.Set(k, tval(o.Val), d)
	case model.CSetDefault:
		c.SetDefault(k, tval(o.Val))
	case model.CSetForever:
		c.SetForever(k, tval(o.Val))
	case model.CGet:
		r.V, r.OK = c.Get(k)
	case model.CGetExp:
		var tm time.Time
		r.V, tm, r.OK = c.GetWithExpiration(k)
		r.T = tns(tm)
	case model.CGetTTL:
		var ttl time.Duration
		r.V, ttl, r.OK = c.GetWithTTL(k)
		r.T = int64(ttl)
	case model.CGetOrSet:
		r.V, r.OK = c.GetOrSet(k, tval(o.Val), d)
	case model.CGetAndSet:
		r.V, r.OK = c.GetAndSet(k, tval(o.Val), d)
	case model.CGetAndRefresh:
		r.V, r.OK = c.GetAndRefresh(k, d)
	case model.CGetOrCompute:
		r.V, r.OK = c.GetOrCompute(k, func() interface{} {
			r.Fn = append(r.Fn, "called")
			if o.FnAdv > 0 {
				vs.NowNS += o.FnAdv // the loader takes time
			}
			if o.FnDef != 0 {
				c.SetDefaultExpiration(time.Duration(o.FnDef))
			}
			return tval(o.Val)
		}, d)
	case model.CCompute:
		r.V, r.OK = c.Compute(k, func(old interface{}, loaded bool) (interface{}, bool) {
			r.Fn = append(r.Fn, fmt.Sprintf("(%#v,%v)", old, loaded))
			if o.FnAdv > 0 {
				vs.NowNS += o.FnAdv
			}
			if o.FnDef != 0 {
				c.SetDefaultExpiration(time.Duration(o.FnDef))
			}
			_, del := model.FnResult(o.Fn, o.Val, loaded)
			if o.Fn == fnKeep && loaded {
				return old, false // store the very value that is there
			}
			return tval(o.Val), del
		}, d)
	case model.CGetAndDelete:
		r.V, r.OK = c.GetAndDelete(k)
	case model.CDelete:
		c.Delete(k)
	case model.CDeleteExpired:
		c.DeleteExpired()
	case model.CRange:
		n := 0
		c.Range(func(k string, v interface{}) bool {
			r.Vis = append(r.Vis, fmt.Sprintf("%s=%#v", k, v))
			n++
			return !(o.N > 0 && n >= o.N)
		})
		if o.N > 0 {
			r.T = int64(len(r.Vis)) // with early stop only the number of calls is comparable
			r.Vis = nil
		}
	case model.CItems:
		for k, v := range c.Items() {
			r.Vis = append(r.Vis, fmt.Sprintf("%s=%#v", k, v))
		}
	case model.CClear:
		c.Clear()
	case model.CCount:
		r.T = int64(c.Count())
	case model.CDefaultExp:
		r.T = int64(c.DefaultExpiration())
	case model.CSetDefaultExp:
		c.SetDefaultExpiration(d)
	case model.CSetCallback:
		if o.On {
			ev := t.ev
			c.SetEvictedCallback(func(k string, v interface{}) { *ev = append(*ev, fmt.Sprintf("%s=%#v", k, v)) })
		} else {
			c.SetEvictedCallback(nil)
		}
		r.OK = c.EvictedCallback() != nil
	case model.HBulkSet:
		for i := 0; i < o.N; i++ {
			c.Set(tkey(o.Key+i), tval(o.Val+i), d)
		}
	case model.HBulkDel:
		for i := 0; i < o.N; i++ {
			c.Delete(tkey(o.Key + i))
		}
	}
	sort.Strings(r.Vis)
	r.Ev = append([]string(nil), *t.ev...)
	sort.Strings(r.Ev)
	return
}

func (t *twCacheOf) do(o *model.Op) (r tobs) {
	defer func() {
		if p := recover(); p != nil {
			r.P = fmt.Sprint(p)
		}
	}()
	*t.ev = nil
	k, d, c := tkey(o.Key), time.Duration(o.D), t.c
	switch o.K {
	case model.CSet:
		c.Set(k, tval(o.Val), d)
	case model.CSetDefault:
		c.SetDefault(k, tval(o.Val))
	case model.CSetForever:
		c.SetForever(k, tval(o.Val))
	case model.CGet:
		r.V, r.OK = c.Get(k)
	case model.CGetExp:
		var tm time.Time
		r.V, tm, r.OK = c.GetWithExpiration(k)
		r.T = tns(tm)
	case model.CGetTTL:
		var ttl time.Duration
		r.V, ttl, r.OK = c.GetWithTTL(k)
		r.T = int64(ttl)
	case model.CGetOrSet:
		r.V, r.OK = c.GetOrSet(k, tval(o.Val), d)
	case model.CGetAndSet:
		r.V, r.OK = c.GetAndSet(k, tval(o.Val), d)
	case model.CGetAndRefresh:
		r.V, r.OK = c.GetAndRefresh(k, d)
	case model.CGetOrCompute:
		r.V, r.OK = c.GetOrCompute(k, func() interface{} {
			r.Fn = append(r.Fn, "called")
			if o.FnAdv > 0 {
				vs.NowNS += o.FnAdv // the loader takes time
			}
			if o.FnDef != 0 {
				c.SetDefaultExpiration(time.Duration(o.FnDef))
			}
			return tval(o.Val)
		}, d)
	case model.CCompute:
		r.V, r.OK = c.Compute(k, func(old interface{}, loaded bool) (interface{}, bool) {
			r.Fn = append(r.Fn, fmt.Sprintf("(%#v,%v)", old, loaded))
			if o.FnAdv > 0 {
				vs.NowNS += o.FnAdv
			}
			if o.FnDef != 0 {
				c.SetDefaultExpiration(time.Duration(o.FnDef))
			}
			_, del := model.FnResult(o.Fn, o.Val, loaded)
			if o.Fn == fnKeep && loaded {
				return old, false // store the very value that is there
			}
			return tval(o.Val), del
		}, d)
	case model.CGetAndDelete:
		r.V, r.OK = c.GetAndDelete(k)
	case model.CDelete:
		c.Delete(k)
	case model.CDeleteExpired:
		c.DeleteExpired()
	case model.CRange:
		n := 0
		c.Range(func(k string, v interface{}) bool {
			r.Vis = append(r.Vis, fmt.Sprintf("%s=%#v", k, v))
			n++
			return !(o.N > 0 && n >= o.N)
		})
		if o.N > 0 {
			r.T = int64(len(r.Vis))
			r.Vis = nil
		}
	case model.CItems:
		for k, v := range c.Items() {
			r.Vis = append(r.Vis, fmt.Sprintf("%s=%#v", k, v))
		}
	case model.CClear:
		c.Clear()
	case model.CCount:
		r.T = int64(c.Count())
	case model.CDefaultExp:
		r.T = int64(c.DefaultExpiration())
	case model.CSetDefaultExp:
		c.SetDefaultExpiration(d)
	case model.CSetCallback:
		if o.On {
			ev := t.ev
			c.SetEvictedCallback(func(k string, v interface{}) { *ev = append(*ev, fmt.Sprintf("%s=%#v", k, v)) })
		} else {
			c.SetEvictedCallback(nil)
		}
		r.OK = c.EvictedCallback() != nil
	case model.HBulkSet:
		for i := 0; i < o.N; i++ {
			c.Set(tkey(o.Key+i), tval(o.Val+i), d)
		}
	case model.HBulkDel:
		for i := 0; i < o.N; i++ {
			c.Delete(tkey(o.Key + i))
		}
	}
	sort.Strings(r.Vis)
	r.Ev = append([]string(nil), *t.ev...)
	sort.Strings(r.Ev)
	return
}

// ---- map twins ----

type twMap struct{ m cache.Map }
type twMapOf struct {
	m cache.MapOf[string, interface{}]
}

func (t *twMap) name() string   { return "Map" }
func (t *twMapOf) name() string { return "MapOf[string,interface{}]" }

type anyMap interface {
	Load(string) (interface{}, bool)
	Store(string, interface{})
	LoadOrStore(string, interface{}) (interface{}, bool)
	LoadAndStore(string, interface{}) (interface{}, bool)
	LoadOrCompute(string, func() interface{}) (interface{}, bool)
	Compute(string, func(interface{}, bool) (interface{}, bool)) (interface{}, bool)
	LoadAndDelete(string) (interface{}, bool)
	Delete(string)
	Range(func(string, interface{}) bool)
	Clear()
	Size() int
}

func doAnyMap(m anyMap, o *model.Op) (r tobs) {
	defer func() {
		if p := recover(); p != nil {
			r.P = fmt.Sprint(p)
		}
	}()
	k := tkey(o.Key)
	switch o.K {
	case model.MLoad:
		r.V, r.OK = m.Load(k)
	case model.MStore:
		m.Store(k, tval(o.Val))
	case model.MLoadOrStore:
		r.V, r.OK = m.LoadOrStore(k, tval(o.Val))
	case model.MLoadAndStore:
		r.V, r.OK = m.LoadAndStore(k, tval(o.Val))
	case model.MLoadOrCompute:
		r.V, r.OK = m.LoadOrCompute(k, func() interface{} { r.Fn = append(r.Fn, "called"); return tval(o.Val) })
	case model.MCompute:
		r.V, r.OK = m.Compute(k, func(old interface{}, loaded bool) (interface{}, bool) {
			r.Fn = append(r.Fn, fmt.Sprintf("(%#v,%v)", old, loaded))
			_, del := model.FnResult(o.Fn, o.Val, loaded)
			if o.Fn == fnKeep && loaded {
				return old, false
			}
			return tval(o.Val), del
		})
	case model.MLoadAndDelete:
		r.V, r.OK = m.LoadAndDelete(k)
	case model.MDelete:
		m.Delete(k)
	case model.MClear:
		m.Clear()
	case model.MSize:
		r.T = int64(m.Size())
	case model.MRange:
		n := 0
		m.Range(func(k string, v interface{}) bool {
			r.Vis = append(r.Vis, fmt.Sprintf("%s=%#v", k, v))
			n++
			return !(o.N > 0 && n >= o.N)
		})
		if o.N > 0 {
			r.T = int64(len(r.Vis))
			r.Vis = nil
		}
	case model.HBulkSet:
		for i := 0; i < o.N; i++ {
			m.Store(tkey(o.Key+i), tval(o.Val+i))
		}
	case model.HBulkDel:
		for i := 0; i < o.N; i++ {
			m.Delete(tkey(o.Key + i))
		}
	}
	sort.Strings(r.Vis)
	return
}

func (t *twMap) do(o *model.Op) tobs   { return doAnyMap(t.m, o) }
func (t *twMapOf) do(o *model.Op) tobs { return doAnyMap(t.m, o) }

// twinSpec: constructor variant applied to both twins.
type twinSpec struct {
	Maps    bool  `json:"maps"`
	Ctor    int   `json:"ctor"` // caches: 0 New(), 1 New(opts), 2 NewDefault; maps: 0 plain, 1 presized
	DefExp  int64 `json:"defexp"`
	Cleanup int64 `json:"cleanup"`
	MinCap  int   `json:"mincap"`
	CB      bool  `json:"cb"`
}

type c12Case struct {
	Spec   twinSpec   `json:"spec"`
	Layout uint64     `json:"layout"`
	Ops    []model.Op `json:"ops"`
}

func buildTwins(ts twinSpec) (twin, twin) {
	if ts.Maps {
		if ts.Ctor == 1 {
			return &twMap{cache.NewMapPresized(ts.MinCap)}, &twMapOf{cache.NewMapOfPresized[string, interface{}](ts.MinCap)}
		}
		return &twMap{cache.NewMap()}, &twMapOf{cache.NewMapOf[string, interface{}]()}
	}
	ea, eb := new([]string), new([]string)
	cba := func(k string, v interface{}) { *ea = append(*ea, fmt.Sprintf("%s=%#v", k, v)) }
	cbb := func(k string, v interface{}) { *eb = append(*eb, fmt.Sprintf("%s=%#v", k, v)) }
	a, b := &twCache{ev: ea}, &twCacheOf{ev: eb}
	de, ci := time.Duration(ts.DefExp), time.Duration(ts.Cleanup)
	switch ts.Ctor {
	case 0:
		a.c = cache.New()
		b.c = cache.NewOf[string, interface{}]()
	case 1:
		oa := []cache.Option{cache.WithDefaultExpiration(de), cache.WithCleanupInterval(ci), cache.WithMinCapacity(ts.MinCap)}
		ob := []cache.OptionOf[string, interface{}]{cache.WithDefaultExpirationOf[string, interface{}](de), cache.WithCleanupIntervalOf[string, interface{}](ci), cache.WithMinCapacityOf[string, interface{}](ts.MinCap)}
		if ts.CB {
			oa = append(oa, cache.WithEvictedCallback(cba))
			ob = append(ob, cache.WithEvictedCallbackOf[string, interface{}](cbb))
		}
		a.c = cache.New(oa...)
		b.c = cache.NewOf[string, interface{}](ob...)
	default:
		if ts.CB {
			a.c = cache.NewDefault(de, ci, cba)
			b.c = cache.NewOfDefault[string, interface{}](de, ci, cbb)
		} else {
			a.c = cache.NewDefault(de, ci)
			b.c = cache.NewOfDefault[string, interface{}](de, ci)
		}
	}
	return a, b
}

func c12Compare(a, b twin, o *model.Op) (tobs, string) {
	// both twins live through the same timeline, also when the user function advances the clock
	t0 := vs.NowNS
	ra := a.do(o)
	t1 := vs.NowNS
	vs.NowNS = t0
	rb := b.do(o)
	if vs.NowNS < t1 {
		vs.NowNS = t1
	}
	if !reflect.DeepEqual(ra, rb) {
		return ra, fmt.Sprintf("%s:\n  %s -> %s\n  %s -> %s", o.String(), a.name(), ra.String(), b.name(), rb.String())
	}
	return ra, ""
}

func runC12Case(rt *rapid.T) {
	ts := twinSpec{Maps: uniform(rt, 3, "maps") == 0}
	ts.Ctor = uniform(rt, 3, "ctor")
	if ts.Maps {
		ts.Ctor = uniform(rt, 2, "ctor")
	}
	ts.DefExp = pick(rt, []int64{model.NoExpiration, model.DefaultExpiration, -1, 0, 1, 30, 200, 1000000000}, "defexp")
	ts.Cleanup = pick(rt, []int64{-1000, 0, 0, 5000000000}, "cleanup")
	ts.MinCap = pick(rt, []int{-1, 0, 96, 97, 400}, "mincap")
	ts.CB = rapid.Bool().Draw(rt, "callback")
	layout := rapid.Uint64().Draw(rt, "layoutSeed")
	vs.ClockOn = true
	vs.NowNS = vs.Epoch
	vs.SetLayoutSeed(layout)
	cc := &c12Case{Spec: ts, Layout: layout}
	var a, b twin
	func() {
		defer func() {
			if p := recover(); p != nil {
				rt.Fatalf("VIOLATION constructor panicked: %v", p)
			}
		}()
		a, b = buildTwins(ts)
	}()
	// shadow model: classification and clock targets only
	d0 := model.NoExpiration
	if !ts.Maps && ts.Ctor > 0 && ts.DefExp >= 1 {
		d0 = ts.DefExp
	}
	m := model.New(e1Keys, vs.Epoch, d0, ts.CB)
	st := &e1State{m: m, f: e1Focuses["C01"], flags: map[string]bool{}, c: &Case{}}
	var trace []string
	flags := map[string]bool{}
	step := func(o model.Op) {
		cc.Ops = append(cc.Ops, o)
		if o.K == model.HAdvance {
			vs.NowNS += o.D
			_ = m.Step(&o, nil)
			trace = append(trace, o.String())
			return
		}
		if o.Key < len(m.Ents) && m.ExpiredUncleaned(o.Key) {
			flags["touched-expired-uncleaned"] = true
		}
		ra, diff := c12Compare(a, b, &o)
		trace = append(trace, fmt.Sprintf("%s -> %s", o.String(), ra.String()))
		if diff != "" {
			bts, _ := json.Marshal(cc)
			v := &Violation{Property: "C12", Kind: "differential", Desc: "twin-divergence:" + o.K.String(), Detail: "the twins disagree on " + diff, Engine: "E1-C12", Extra: bts, History: trace}
			writeReplay(v)
			rt.Fatalf("VIOLATION %s\nconstructor variant %+v\ncalls:\n%v", v.Short(), ts, trace)
		}
		if len(ra.Ev) > 0 {
			flags["callback-fired"] = true
		}
		_ = m.Step(&o, nil)
		if o.K == model.HBulkSet && o.N > 130 {
			flags["bulk-crossing-both-grow-thresholds"] = true
		}
	}
	if !ts.Maps {
		step(model.Op{K: model.CDefaultExp})
	}
	n := 0
	rt.Repeat(map[string]func(*rapid.T){
		"step": func(rt *rapid.T) {
			n++
			var o model.Op
			if ts.Maps {
				o.K = pickKind(rt, []wk{{model.MLoad, 10}, {model.MStore, 12}, {model.MLoadOrStore, 8}, {model.MLoadAndStore, 8}, {model.MLoadOrCompute, 8},
					{model.MCompute, 14}, {model.MLoadAndDelete, 8}, {model.MDelete, 6}, {model.MClear, 2}, {model.MSize, 4}, {model.MRange, 4}, {model.HBulkSet, 4}, {model.HBulkDel, 3}}, "op")
				o.Key = irange(rt, 0, e1Hot-1, "key")
				o.Val = st.val()
				switch o.K {
				case model.MCompute:
					o.Fn = uint8(uniform(rt, 5, "fn"))
				case model.MRange:
					if uniform(rt, 3, "stop") == 0 {
						o.N = irange(rt, 1, 5, "stopAfter")
					}
				case model.HBulkSet:
					o.Key, o.N, o.D = e1BulkBase+irange(rt, 0, 20, "off"), irange(rt, 40, 400, "n"), model.NoExpiration
					o.Val = 7*st.val() + 100000
					st.next += 60
				case model.HBulkDel:
					o.Key, o.N = e1BulkBase+irange(rt, 0, 60, "off"), irange(rt, 30, 360, "n")
				}
			} else {
				o = st.genOp(rt)
				if o.K == model.HBulkGet {
					o.K = model.CItems
				}
				if o.K == model.CCompute && uniform(rt, 5, "keepOld") == 0 {
					o.Fn = fnKeep
				}
				if o.K == model.CGetOrCompute || o.K == model.CCompute {
					// loaders are slow by nature: time passes inside the user function, and it may touch settings
					if uniform(rt, 5, "slowLoader") < 2 {
						o.FnAdv = int64(irange(rt, 1, 120, "loaderTime"))
					}
					if uniform(rt, 6, "loaderSetsDefault") == 0 {
						o.FnDef = pick(rt, []int64{7, 300, model.NoExpiration}, "loaderDefault")
					}
				}
			}
			step(o)
		},
		"": func(rt *rapid.T) {
			if n%6 == 5 {
				if ts.Maps {
					step(model.Op{K: model.MRange})
					step(model.Op{K: model.MSize})
				} else {
					step(model.Op{K: model.CItems})
					step(model.Op{K: model.CCount})
				}
			}
		},
	})
	if ts.Maps {
		step(model.Op{K: model.MRange})
		step(model.Op{K: model.MSize})
	} else {
		step(model.Op{K: model.CItems})
		step(model.Op{K: model.CCount})
	}
	stats.Inc("cases")
	stats.Add("calls_total", int64(len(cc.Ops)))
	for f := range flags {
		stats.Inc("cases_" + f)
	}
	if ts.Maps {
		stats.Inc("cases_map_twins")
	} else {
		stats.Inc("cases_cache_twins")
	}
	if len(flags) > 0 {
		stats.NonTrivial(stats.Hash64(fmt.Sprint(ts), fmt.Sprint(cc.Ops)))
	}
	if len(trace) > 30 {
		trace = trace[:30]
	}
	stats.Sample(map[string]interface{}{"constructor_variant": ts, "calls_and_common_results": trace})
}

func replayC12(v *Violation) *Violation {
	var cc c12Case
	if err := json.Unmarshal(v.Extra, &cc); err != nil {
		return nil
	}
	for i := uint64(0); i < 32; i++ {
		vs.ClockOn = true
		vs.NowNS = vs.Epoch
		vs.SetLayoutSeed(cc.Layout + i*0x9e3779b97f4a7c15)
		a, b := buildTwins(cc.Spec)
		for _, o := range cc.Ops {
			o := o
			if o.K == model.HAdvance {
				vs.NowNS += o.D
				continue
			}
			if _, diff := c12Compare(a, b, &o); diff != "" {
				return &Violation{Property: "C12", Kind: "differential", Desc: "twin-divergence:" + o.K.String(), Detail: "the twins disagree on " + diff, Engine: "E1-C12", Extra: v.Extra}
			}
		}
	}
	return nil
}

var _ = adapt.SortedCopy
