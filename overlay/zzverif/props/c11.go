package props

import (
	"encoding/json"
	"fmt"
	"reflect"

	"github.com/fufuok/cache/zzverif/adapt"
	"github.com/fufuok/cache/zzverif/model"
	"github.com/fufuok/cache/zzverif/stats"
	"github.com/fufuok/cache/zzverif/vs"
	"pgregory.net/rapid"
)

// c11Case is the replayable form of a C11 case.
type c11Case struct {
	Specs  []adapt.Spec `json:"specs"`
	Layout uint64       `json:"layout"`
	U      int          `json:"universe"`
	Ops    []model.Op   `json:"ops"`
}

// C11: results and contents never depend on capacity, resize history, hash
// seed or bucket layout. The same generated call sequence runs on instance A
// (size hint h1), instance B (size hint h2, fresh random seeds) and, for small
// universes of MapOf, instances with a constant and a four-bucket hasher (every
// slot-occupancy pattern of one chain); every result must be identical on all
// of them and agree with the reference map model.

var c11Hints = []int{-5, 0, 1, 96, 97, 161, 1000, 100000}

func sameRes(a, b *model.Res) string {
	if a.V != b.V || a.OK != b.OK || a.T != b.T {
		return fmt.Sprintf("(%d,%v,t=%d) vs (%d,%v,t=%d)", a.V, a.OK, a.T, b.V, b.OK, b.T)
	}
	if !reflect.DeepEqual(a.Fn, b.Fn) {
		return fmt.Sprintf("user function saw %v vs %v", a.Fn, b.Fn)
	}
	if a.Panic != b.Panic {
		return fmt.Sprintf("panic %q vs %q", a.Panic, b.Panic)
	}
	av, bv := adapt.SortedCopy(a.Vis), adapt.SortedCopy(b.Vis)
	if len(av) != len(bv) {
		return fmt.Sprintf("%d vs %d pairs visited", len(av), len(bv))
	}
	for i := range av {
		if av[i] != bv[i] {
			return fmt.Sprintf("visited pair %v vs %v", av[i], bv[i])
		}
	}
	ae, be := adapt.SortedCopy(a.Ev), adapt.SortedCopy(b.Ev)
	if !reflect.DeepEqual(ae, be) {
		return fmt.Sprintf("evicted %v vs %v", ae, be)
	}
	return ""
}

func runC11Case(rt *rapid.T) {
	kind := pick(rt, []string{"map", "mapof", "mapof", "cache", "cacheof"}, "container")
	small := uniform(rt, 3, "universe") == 0
	U := 30000
	if small {
		U = irange(rt, 20, 400, "smallU")
		if uniform(rt, 4, "beyondByteWidth") == 0 {
			U = irange(rt, 500, 760, "smallU2") // the constant-hasher instance then resizes with more than 255 (and 480) entries in ONE chain
		}
	} else {
		U = pick(rt, []int{600, 3000, 30000, 30000, 120000}, "largeU")
	}
	var specs []adapt.Spec
	h1 := pick(rt, c11Hints, "hintA")
	h2 := pick(rt, c11Hints, "hintB")
	base := adapt.Spec{Kind: kind}
	if kind == "mapof" || kind == "cacheof" {
		base.Key = pick(rt, []string{"int", "string", "struct"}, "keytype")
		if kind == "cacheof" && base.Key == "struct" {
			base.Key = "int"
		}
	}
	a, b := base, base
	a.Presize, b.Presize = h1, h2
	if kind == "cache" || kind == "cacheof" {
		a.CB, b.CB = true, true
	}
	specs = append(specs, a, b)
	if (kind == "map" || kind == "mapof") && rapid.Bool().Draw(rt, "growOnlyInstance") {
		g := base
		g.Presize, g.GrowOnly = h1, true // the internal grow-only option: same contents, never shrinks except on Clear
		specs = append(specs, g)
	}
	if kind == "mapof" && small {
		c, d := base, base
		c.Hasher, d.Hasher = "const", "lowbits"
		specs = append(specs, c, d)
	}
	layout := rapid.Uint64().Draw(rt, "layoutSeed")
	vs.ClockOn = true
	vs.NowNS = vs.Epoch
	vs.SetLayoutSeed(layout) // every instance draws its own table seeds from this stream
	cc := &c11Case{Specs: specs, Layout: layout, U: U}
	var apis []adapt.API
	for _, s := range specs {
		apis = append(apis, adapt.New(s))
	}
	defer func() {
		for _, a := range apis {
			a.Release()
		}
	}()
	isCache := base.IsCache()
	m := model.New(U, vs.Epoch, model.NoExpiration, isCache)
	var trace []string
	next := 1
	recent := make([]int, 0, 64)
	key := func() int {
		if len(recent) > 0 && uniform(rt, 2, "recentKey") == 0 {
			return recent[uniform(rt, len(recent), "which")]
		}
		k := rapid.IntRange(0, U-1).Draw(rt, "key")
		if len(recent) < 64 {
			recent = append(recent, k)
		} else {
			recent[next%64] = k
		}
		return k
	}
	fail := func(desc, detail string) {
		if len(trace) > 80 {
			trace = trace[len(trace)-80:]
		}
		b, _ := json.Marshal(cc)
		writeReplay(&Violation{Property: "C11", Kind: "differential", Desc: desc, Detail: detail, Engine: "E1-C11", Extra: b, History: trace})
		rt.Fatalf("VIOLATION %s\n(container %s, hints %d/%d, universe %d)\nlast calls: %v", detail, kind, h1, h2, U, trace)
	}
	absentFull := false
	do := func(o model.Op) {
		cc.Ops = append(cc.Ops, o)
		var rs []model.Res
		for _, api := range apis {
			oc := o
			rs = append(rs, adapt.SafeDo(api, &oc))
		}
		line := fmt.Sprintf("%s -> %s", o.String(), rs[0].String())
		trace = append(trace, line)
		for i := 1; i < len(rs); i++ {
			if d := sameRes(&rs[0], &rs[i]); d != "" {
				fail("instance-divergence:"+o.K.String(), fmt.Sprintf("%s gives different results on instance A [%s] and instance %c [%s]: %s", o.String(), specs[0].String(), 'A'+i, specs[i].String(), d))
			}
		}
		if (o.K == model.MCompute || o.K == model.MLoadAndDelete) && !m.Live(o.Key) && len(apis) > 2 {
			if ts := apis[2].Table(); ts.OK && ts.Size > 0 && ts.Size%5 == 0 {
				absentFull = true
			}
		}
		if err := m.Step(&o, &rs[0]); err != nil {
			fail("model:"+o.K.String(), fmt.Sprintf("%s -> %s disagrees with the reference map: %v", o.String(), rs[0].String(), err))
		}
	}
	val := func() int { next++; return next }
	n := 0
	maxLive, sizeGrewShrank := 0, false
	checkpoint := func() {
		live, _, _ := m.Counts()
		if live > maxLive {
			maxLive = live
		}
		if maxLive > 400 && live <= 1 {
			sizeGrewShrank = true
		}
		if isCache {
			do(model.Op{K: model.CItems})
			do(model.Op{K: model.CCount})
		} else {
			do(model.Op{K: model.MRange})
			do(model.Op{K: model.MSize})
		}
		// point lookups of a whole window of the universe (Load walks chains differently from Range)
		w := U
		start := 0
		if U > 3000 {
			w = 3000
			start = (next * 7919) % (U - w)
		}
		do(model.Op{K: model.HBulkGet, Key: start, N: w})
	}
	lastInsAt, lastInsN := 0, 0
	rt.Repeat(map[string]func(*rapid.T){
		"step": func(rt *rapid.T) {
			n++
			checkAfter := false
			c := uniform(rt, 100, "opClass")
			var o model.Op
			switch {
			case c < 8: // bulk insert crossing grow thresholds
				cnt := irange(rt, 50, 1000, "bulkN")
				if !small && uniform(rt, 3, "huge") == 0 {
					cnt *= irange(rt, 5, 20, "mult")
				}
				if U > 100000 && uniform(rt, 2, "giant") == 0 {
					cnt = irange(rt, 20, 100, "giantK") * 1000 // tables of thousands of buckets (resize strategies may differ there)
				}
				start := rapid.IntRange(0, U-1).Draw(rt, "bulkStart")
				if start+cnt > U {
					cnt = U - start
				}
				o = model.Op{K: model.HBulkSet, Key: start, N: cnt, Val: 1000000 + next*40000, D: model.NoExpiration}
				lastInsAt, lastInsN = start, cnt
				next++
			case c < 16: // bulk delete crossing shrink thresholds
				cnt := irange(rt, 50, 1000, "bulkN")
				if w := uniform(rt, 3, "all"); w == 0 {
					o = model.Op{K: model.HBulkDel, Key: 0, N: U}
				} else if r := irange(rt, 100, 1200, "survivors"); w == 1 && lastInsN > r {
					// everything but a few hundred keys of the last bulk insert: the table shrinks step by step WITH
					// survivors in it (the counters are re-derived at every step), and they are read back at once
					w0 := lastInsAt + (next*7919)%(lastInsN-r)
					do(model.Op{K: model.HBulkDel, Key: 0, N: w0})
					o = model.Op{K: model.HBulkDel, Key: w0 + r, N: U - (w0 + r)}
					checkAfter = true
				} else {
					start := rapid.IntRange(0, U-1).Draw(rt, "bulkStart")
					if !small {
						cnt *= irange(rt, 1, 20, "mult")
					}
					if start+cnt > U {
						cnt = U - start
					}
					o = model.Op{K: model.HBulkDel, Key: start, N: cnt}
				}
			case c < 18:
				if isCache {
					o = model.Op{K: model.CClear}
				} else {
					o = model.Op{K: model.MClear}
				}
			case c < 21:
				if uniform(rt, 4, "collectFirst") == 0 {
					// retired tables and unlinked buckets are garbage by now: collect them and reuse the memory
					// before reading everything back
					adapt.CollectAndChurn()
					stats.Inc("checkpoints_after_gc")
				}
				checkpoint()
				return
			default:
				k := key()
				if isCache {
					o.K = pick(rt, []model.Kind{model.CSet, model.CGet, model.CGetOrSet, model.CGetAndSet, model.CGetOrCompute, model.CCompute, model.CCompute, model.CGetAndDelete, model.CDelete, model.CGetAndRefresh}, "op")
					o.D = model.NoExpiration
				} else {
					o.K = pick(rt, []model.Kind{model.MStore, model.MLoad, model.MLoadOrStore, model.MLoadAndStore, model.MLoadOrCompute, model.MCompute, model.MCompute, model.MLoadAndDelete, model.MDelete}, "op")
				}
				o.Key = k
				o.Val = val()
				if o.K == model.MCompute || o.K == model.CCompute {
					o.Fn = uint8(uniform(rt, 4, "fn"))
				}
			}
			do(o)
			if checkAfter {
				checkpoint()
			}
		},
	})
	checkpoint()
	stats.Inc("cases")
	stats.Add("calls_total", int64(len(trace)))
	nt := false
	grew, shrank := false, false
	for _, api := range apis {
		if ts := api.Table(); ts.OK {
			if ts.Growths > 0 {
				grew = true
			}
			if ts.Shrinks > 0 {
				shrank = true
			}
		}
	}
	if grew {
		stats.Inc("cases_table_grew")
	}
	if grew && shrank {
		stats.Inc("cases_table_grew_and_shrank")
		nt = true
	}
	if absentFull {
		stats.Inc("cases_delete_of_absent_key_on_full_chain")
		nt = true
	}
	if isCache && sizeGrewShrank {
		// caches expose no table statistics: classified by the sizes reached (> 400 entries, later <= 1)
		stats.Inc("cases_cache_grew_and_shrank_by_size")
		nt = true
	}
	if nt {
		stats.NonTrivial(stats.Hash64(kind, fmt.Sprint(h1, h2, U), fmt.Sprint(trace)))
	}
	if len(trace) > 20 {
		trace = trace[:20]
	}
	stats.Sample(map[string]interface{}{"container": kind, "hints": []int{h1, h2}, "universe": U, "instances": len(apis), "first_calls": trace})
}

// replayC11 re-executes a stored C11 case on the current tree.
func replayC11(v *Violation) *Violation {
	var cc c11Case
	if err := json.Unmarshal(v.Extra, &cc); err != nil || len(cc.Specs) == 0 {
		return nil
	}
	for i := uint64(0); i < 48; i++ {
		vs.ClockOn = true
		vs.NowNS = vs.Epoch
		vs.SetLayoutSeed(cc.Layout + i*0x9e3779b97f4a7c15)
		var apis []adapt.API
		for _, s := range cc.Specs {
			apis = append(apis, adapt.New(s))
		}
		m := model.New(cc.U, vs.Epoch, model.NoExpiration, cc.Specs[0].IsCache())
		for _, o := range cc.Ops {
			var rs []model.Res
			for _, api := range apis {
				oc := o
				rs = append(rs, adapt.SafeDo(api, &oc))
			}
			for j := 1; j < len(rs); j++ {
				if d := sameRes(&rs[0], &rs[j]); d != "" {
					return &Violation{Property: "C11", Kind: "differential", Desc: "instance-divergence:" + o.K.String(), Engine: "E1-C11", Extra: v.Extra,
						Detail: fmt.Sprintf("%s gives different results on instance A [%s] and instance %c [%s]: %s", o.String(), cc.Specs[0].String(), 'A'+j, cc.Specs[j].String(), d)}
				}
			}
			oc := o
			if err := m.Step(&oc, &rs[0]); err != nil {
				return &Violation{Property: "C11", Kind: "differential", Desc: "model:" + o.K.String(), Engine: "E1-C11", Extra: v.Extra,
					Detail: fmt.Sprintf("%s -> %s disagrees with the reference map: %v", o.String(), rs[0].String(), err)}
			}
		}
	}
	return nil
}
