package props

import (
	"fmt"
	"sort"
	"testing"

	"github.com/anishathalye/porcupine"
	"github.com/fufuok/cache/zzverif/lin"
	"github.com/fufuok/cache/zzverif/model"
	"github.com/fufuok/cache/zzverif/vs"
	"github.com/fufuok/cache/zzverif/vs/vatomic"
	"github.com/fufuok/cache/zzverif/vs/vruntime"
	"github.com/fufuok/cache/zzverif/vs/vsync"
	"pgregory.net/rapid"
)

// Self-tests of the trusted base: scheduler + shims must classify textbook
// correct / incorrect concurrent programs correctly under the same sweeps the
// checks use, and the linearizability checker must agree with porcupine (an
// independent implementation) on generated legal and illegal histories.
// A failure here is an infrastructure failure (exit 2), never a violation.

// sweepAll runs prog under every single- and double-preemption schedule of two
// threads plus both non-preemptive orders; returns the failures seen.
func sweepAll(t *testing.T, mk func() (a, b func(), check func() string)) (fails map[string]int, runs int) {
	fails = map[string]int{}
	run := func(d vs.Decider) {
		a, b, check := mk()
		r := vs.Run(d, 20000, a, b)
		runs++
		if r.Fail != nil {
			fails[r.Fail.Kind]++
			return
		}
		if msg := check(); msg != "" {
			fails["check:"+msg]++
		}
	}
	steps := [2]int{}
	for first := 0; first < 2; first++ {
		a, b, _ := mk()
		r := vs.Run(&vs.NonPreemptive{Order: []int{first, 1 - first}}, 20000, a, b)
		steps[0], steps[1] = max2(steps[0], r.Steps[0]), max2(steps[1], r.Steps[1])
	}
	for first := 0; first < 2; first++ {
		ord := []int{first, 1 - first}
		run(&vs.NonPreemptive{Order: ord})
		for k1 := 1; k1 <= steps[first]+2; k1++ {
			run(&vs.PCT{Prio: prioFromOrder(ord), Changes: []vs.Change{{Thread: first, Step: k1}}})
			for k2 := 1; k2 <= steps[1-first]+2; k2++ {
				run(&vs.PCT{Prio: prioFromOrder(ord), Changes: []vs.Change{{Thread: first, Step: k1}, {Thread: 1 - first, Step: k2}}})
			}
		}
	}
	return
}

func max2(a, b int) int {
	if a > b {
		return a
	}
	return b
}

func TestSelfSchedDeadlockDetection(t *testing.T) {
	// AB / BA locking deadlocks under some schedule; AB / AB never does.
	mk := func(inverted bool) func() (func(), func(), func() string) {
		return func() (func(), func(), func() string) {
			var m1, m2 vsync.Mutex
			a := func() { m1.Lock(); m2.Lock(); m2.Unlock(); m1.Unlock() }
			b := func() { m2.Lock(); m1.Lock(); m1.Unlock(); m2.Unlock() }
			if !inverted {
				b = a
			}
			return a, b, func() string { return "" }
		}
	}
	f, n := sweepAll(t, mk(true))
	if f["deadlock"] == 0 {
		t.Fatalf("AB/BA deadlock not detected in %d schedules: %v", n, f)
	}
	f, n = sweepAll(t, mk(false))
	if len(f) != 0 {
		t.Fatalf("consistent lock order reported failures in %d schedules: %v", n, f)
	}
}

func TestSelfSchedLostWakeup(t *testing.T) {
	// waiter that checks the flag under the lock and waits in a loop: never hangs.
	// waiter that checks the flag BEFORE taking the lock: lost wake-up under some schedule.
	mk := func(broken bool) func() (func(), func(), func() string) {
		return func() (func(), func(), func() string) {
			var mu vsync.Mutex
			cond := vsync.NewCond(&mu)
			var flag int64
			waiter := func() {
				if broken {
					if vatomic.LoadInt64(&flag) == 0 {
						mu.Lock()
						cond.Wait()
						mu.Unlock()
					}
					return
				}
				mu.Lock()
				for vatomic.LoadInt64(&flag) == 0 {
					cond.Wait()
				}
				mu.Unlock()
			}
			signaler := func() {
				mu.Lock()
				vatomic.StoreInt64(&flag, 1)
				cond.Broadcast()
				mu.Unlock()
			}
			return waiter, signaler, func() string { return "" }
		}
	}
	f, n := sweepAll(t, mk(true))
	if f["deadlock"] == 0 {
		t.Fatalf("lost wake-up not detected in %d schedules: %v", n, f)
	}
	f, n = sweepAll(t, mk(false))
	if len(f) != 0 {
		t.Fatalf("correct condition wait reported failures in %d schedules: %v", n, f)
	}
}

func TestSelfSchedSpinLock(t *testing.T) {
	// TTAS lock with CAS gives mutual exclusion; "load then store" does not.
	mk := func(broken bool) func() (func(), func(), func() string) {
		return func() (func(), func(), func() string) {
			var lock uint64
			var counter int64
			acquire := func() {
				for {
					for vatomic.LoadUint64(&lock)&1 == 1 {
						vruntime.Gosched()
					}
					if broken {
						vatomic.StoreUint64(&lock, 1)
						return
					}
					if vatomic.CompareAndSwapUint64(&lock, 0, 1) {
						return
					}
					vruntime.Gosched()
				}
			}
			body := func() {
				acquire()
				v := vatomic.LoadInt64(&counter) // non-atomic increment inside the critical section
				vatomic.StoreInt64(&counter, v+1)
				vatomic.StoreUint64(&lock, 0)
			}
			return body, body, func() string {
				if counter != 2 {
					return "lost-update"
				}
				return ""
			}
		}
	}
	f, n := sweepAll(t, mk(true))
	if f["check:lost-update"] == 0 {
		t.Fatalf("broken spin lock not exposed in %d schedules: %v", n, f)
	}
	f, n = sweepAll(t, mk(false))
	if len(f) != 0 {
		t.Fatalf("correct TTAS lock reported failures in %d schedules: %v", n, f)
	}
}

func TestSelfSchedPeterson(t *testing.T) {
	mk := func() (func(), func(), func() string) {
		var flag [2]int64
		var turn, counter int64
		th := func(me int) func() {
			return func() {
				other := 1 - me
				vatomic.StoreInt64(&flag[me], 1)
				vatomic.StoreInt64(&turn, int64(other))
				for vatomic.LoadInt64(&flag[other]) == 1 && vatomic.LoadInt64(&turn) == int64(other) {
					vruntime.Gosched()
				}
				v := vatomic.LoadInt64(&counter)
				vatomic.StoreInt64(&counter, v+1)
				vatomic.StoreInt64(&flag[me], 0)
			}
		}
		return th(0), th(1), func() string {
			if counter != 2 {
				return "mutual-exclusion-broken"
			}
			return ""
		}
	}
	f, n := sweepAll(t, mk)
	if len(f) != 0 {
		t.Fatalf("Peterson's algorithm (sequentially consistent atomics) reported failures in %d schedules: %v", n, f)
	}
}

func TestSelfSchedNoProgress(t *testing.T) {
	// a thread spinning on a flag nobody sets must end in the no-progress detector, not hang
	var flag int64
	r := vs.Run(&vs.NonPreemptive{Order: []int{0}}, 5000, func() {
		for vatomic.LoadInt64(&flag) == 0 {
			vruntime.Gosched()
		}
	})
	if r.Fail == nil || r.Fail.Kind != "no-progress" {
		t.Fatalf("endless spin not reported: %v", r.Fail)
	}
	// a panic on a virtual thread is reported with the other threads unwound
	var mu vsync.Mutex
	r = vs.Run(&vs.NonPreemptive{Order: []int{0, 1}}, 5000, func() { mu.Lock(); panic("boom") }, func() { mu.Lock(); mu.Unlock() })
	if r.Fail == nil || r.Fail.Kind != "panic" {
		t.Fatalf("panic not reported: %v", r.Fail)
	}
}

// ---- lin vs porcupine ----

type pIn struct {
	k   model.Kind
	key int
	val int
}
type pOut struct {
	v  int
	ok bool
}

var porcModel = porcupine.Model{
	Init: func() interface{} { return [4]int{} },
	Step: func(state, input, output interface{}) (bool, interface{}) {
		st := state.([4]int)
		in := input.(pIn)
		out := output.(pOut)
		cur := st[in.key]
		switch in.k {
		case model.MLoad:
			return out.ok == (cur != 0) && out.v == cur, st
		case model.MStore:
			st[in.key] = in.val
			return true, st
		case model.MLoadOrStore:
			if cur != 0 {
				return out.ok && out.v == cur, st
			}
			st[in.key] = in.val
			return !out.ok && out.v == in.val, st
		case model.MLoadAndDelete:
			st[in.key] = 0
			return out.ok == (cur != 0) && out.v == cur, st
		case model.MLoadAndStore:
			st[in.key] = in.val
			if cur != 0 {
				return out.ok && out.v == cur, st
			}
			return !out.ok && (out.v == in.val || out.v == 0), st // not loaded: given value or zero, as in model.M
		}
		return false, st
	},
	Equal: func(a, b interface{}) bool { return a.([4]int) == b.([4]int) },
}

func TestSelfLinAgreesWithPorcupine(t *testing.T) {
	agree, illegal := 0, 0
	rapid.Check(t, func(rt *rapid.T) {
		// a history produced by a sequentially consistent map under a random interleaving of
		// invocation / effect / return points, optionally corrupted
		nthr := irange(rt, 2, 3, "threads")
		type pend struct {
			in   pIn
			inv  int64
			out  pOut
			done bool
		}
		var st [4]int
		var ops []*pend
		cur := make([]*pend, nthr)
		left := make([]int, nthr)
		for i := range left {
			left[i] = irange(rt, 1, 3, "nops")
		}
		clock := int64(0)
		val := 0
		type rec struct {
			in       pIn
			out      pOut
			inv, ret int64
			th       int
		}
		var recs []rec
		for {
			var cand []int
			for i := 0; i < nthr; i++ {
				if left[i] > 0 || cur[i] != nil {
					cand = append(cand, i)
				}
			}
			if len(cand) == 0 {
				break
			}
			th := cand[uniform(rt, len(cand), "who")]
			clock++
			switch {
			case cur[th] == nil:
				val++
				p := &pend{in: pIn{k: pick(rt, []model.Kind{model.MLoad, model.MStore, model.MLoadOrStore, model.MLoadAndDelete, model.MLoadAndStore}, "kind"), key: uniform(rt, 2, "key"), val: val}, inv: clock}
				cur[th] = p
				ops = append(ops, p)
				left[th]--
			case !cur[th].done:
				p := cur[th]
				ok, ns := true, interface{}(st)
				// compute the true output by trying the step with the real semantics
				c := st[p.in.key]
				switch p.in.k {
				case model.MLoad:
					p.out = pOut{c, c != 0}
				case model.MStore:
					p.out = pOut{}
				case model.MLoadOrStore:
					if c != 0 {
						p.out = pOut{c, true}
					} else {
						p.out = pOut{p.in.val, false}
					}
				case model.MLoadAndDelete:
					p.out = pOut{c, c != 0}
				case model.MLoadAndStore:
					if c != 0 {
						p.out = pOut{c, true}
					} else {
						p.out = pOut{p.in.val, false}
					}
				}
				ok, ns = porcModel.Step(st, p.in, p.out)
				if !ok {
					rt.Fatalf("generator bug")
				}
				st = ns.([4]int)
				p.done = true
			default:
				p := cur[th]
				recs = append(recs, rec{p.in, p.out, p.inv, clock, th})
				cur[th] = nil
			}
		}
		corrupt := rapid.Bool().Draw(rt, "corrupt")
		if corrupt && len(recs) > 0 {
			i := uniform(rt, len(recs), "victim")
			switch uniform(rt, 3, "how") {
			case 0:
				recs[i].out.v += 100 // value never written
			case 1:
				recs[i].out.ok = !recs[i].out.ok
			default:
				recs[i].out.v = 0
				recs[i].out.ok = false
			}
		}
		// our checker
		m := model.New(4, 0, model.NoExpiration, false)
		var evs []lin.Ev
		var pops []porcupine.Operation
		sort.Slice(recs, func(i, j int) bool { return recs[i].inv < recs[j].inv })
		for i, r := range recs {
			res := &model.Res{V: r.out.v, OK: r.out.ok}
			evs = append(evs, lin.Ev{Op: model.Op{K: r.in.k, Key: r.in.key, Val: r.in.val}, Res: res, Inv: r.inv, Ret: r.ret, Thread: r.th})
			pops = append(pops, porcupine.Operation{ClientId: r.th, Input: r.in, Output: r.out, Call: r.inv, Return: r.ret})
			_ = i
		}
		mine := lin.Check(m, evs).OK
		theirs := porcupine.CheckOperations(porcModel, pops)
		if mine != theirs {
			rt.Fatalf("lin says %v, porcupine says %v for history %+v", mine, theirs, recs)
		}
		if !corrupt && !mine {
			rt.Fatalf("legal history rejected: %+v", recs)
		}
		agree++
		if !mine {
			illegal++
		}
	})
	if illegal == 0 {
		t.Fatalf("self-test generated no illegal history (%d cases)", agree)
	}
	fmt.Printf("selftest: lin agreed with porcupine on %d histories, %d of them illegal\n", agree, illegal)
}
