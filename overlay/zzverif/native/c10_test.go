package native

import (
	"fmt"
	"math"
	"os"
	"strings"
	"testing"
	"unsafe"

	cache "github.com/fufuok/cache"
	"github.com/fufuok/cache/internal/xsync"
	"github.com/fufuok/cache/zzverif/stats"
	"pgregory.net/rapid"
)

// C10: keys are matched by Go equality for every comparable key type.
// Oracle: a builtin map[K]int fed the same calls; no valid key may panic.

var bits10 = rapid.SliceOfN(rapid.Bool(), 10, 10)

func uniform(rt *rapid.T, n int, label string) int {
	if n <= 1 {
		return 0
	}
	v := 0
	for _, b := range bits10.Draw(rt, label) {
		v <<= 1
		if b {
			v |= 1
		}
	}
	return v * n / 1024
}

// kvAPI is the common face of MapOf[K,int] and CacheOf[K,int].
type kvAPI[K comparable] interface {
	Load(K) (int, bool)
	Store(K, int)
	LoadOrStore(K, int) (int, bool)
	LoadAndStore(K, int) (int, bool)
	LoadAndDelete(K) (int, bool)
	Delete(K)
	ComputeStore(K, int) (int, bool, int, bool)  // returns (actual, ok, oldSeen, loadedSeen)
	ComputeDelete(K) (int, bool, int, bool)
	Range(func(K, int) bool)
	Size() int
}

type mapOfKV[K comparable] struct{ m cache.MapOf[K, int] }

func (a mapOfKV[K]) Load(k K) (int, bool)              { return a.m.Load(k) }
func (a mapOfKV[K]) Store(k K, v int)                  { a.m.Store(k, v) }
func (a mapOfKV[K]) LoadOrStore(k K, v int) (int, bool) { return a.m.LoadOrStore(k, v) }
func (a mapOfKV[K]) LoadAndStore(k K, v int) (int, bool) { return a.m.LoadAndStore(k, v) }
func (a mapOfKV[K]) LoadAndDelete(k K) (int, bool)     { return a.m.LoadAndDelete(k) }
func (a mapOfKV[K]) Delete(k K)                        { a.m.Delete(k) }
func (a mapOfKV[K]) ComputeStore(k K, v int) (int, bool, int, bool) {
	var so int
	var sl bool
	r, ok := a.m.Compute(k, func(old int, loaded bool) (int, bool) { so, sl = old, loaded; return v, false })
	return r, ok, so, sl
}
func (a mapOfKV[K]) ComputeDelete(k K) (int, bool, int, bool) {
	var so int
	var sl bool
	r, ok := a.m.Compute(k, func(old int, loaded bool) (int, bool) { so, sl = old, loaded; return 0, true })
	return r, ok, so, sl
}
func (a mapOfKV[K]) Range(f func(K, int) bool) { a.m.Range(f) }
func (a mapOfKV[K]) Size() int                 { return a.m.Size() }

type cacheOfKV[K comparable] struct{ c cache.CacheOf[K, int] }

func (a cacheOfKV[K]) Load(k K) (int, bool)               { return a.c.Get(k) }
func (a cacheOfKV[K]) Store(k K, v int)                   { a.c.SetForever(k, v) }
func (a cacheOfKV[K]) LoadOrStore(k K, v int) (int, bool)  { return a.c.GetOrSet(k, v, cache.NoExpiration) }
func (a cacheOfKV[K]) LoadAndStore(k K, v int) (int, bool) { return a.c.GetAndSet(k, v, cache.NoExpiration) }
func (a cacheOfKV[K]) LoadAndDelete(k K) (int, bool)      { return a.c.GetAndDelete(k) }
func (a cacheOfKV[K]) Delete(k K)                         { a.c.Delete(k) }
func (a cacheOfKV[K]) ComputeStore(k K, v int) (int, bool, int, bool) {
	var so int
	var sl bool
	r, ok := a.c.Compute(k, func(old int, loaded bool) (int, bool) { so, sl = old, loaded; return v, false }, cache.NoExpiration)
	return r, ok, so, sl
}
func (a cacheOfKV[K]) ComputeDelete(k K) (int, bool, int, bool) {
	var so int
	var sl bool
	r, ok := a.c.Compute(k, func(old int, loaded bool) (int, bool) { so, sl = old, loaded; return 0, true }, cache.NoExpiration)
	return r, ok, so, sl
}
func (a cacheOfKV[K]) Range(f func(K, int) bool) { a.c.Range(f) }
func (a cacheOfKV[K]) Size() int                 { return a.c.Count() }

// keyType describes one entry of the catalogue.
type keyType[K comparable] struct {
	name   string
	pool   func() []K    // fresh pool per case; contains ==-equal keys with different representations
	mutate func(int)     // optional: change memory the keys merely point to (i-th mutation)
	descr  func(K) string
}

func safe(f func()) (p string) {
	defer func() {
		if r := recover(); r != nil {
			p = fmt.Sprint(r)
		}
	}()
	f()
	return ""
}

type c10Fail struct {
	Type, Container, Detail string
	Trace                  []string
}

func runKeyCase[K comparable](rt *rapid.T, kt keyType[K]) {
	pool := kt.pool()
	cont := uniform(rt, 4, "container")
	var api kvAPI[K]
	cname := ""
	if p := safe(func() {
		switch cont {
		case 0:
			api, cname = mapOfKV[K]{cache.NewMapOf[K, int]()}, "MapOf(default hasher)"
		case 1:
			api, cname = mapOfKV[K]{xsync.NewMapOfWithHasher[K, int](func(K, uint64) uint64 { return 0x55 })}, "MapOf(constant hasher)"
		case 2:
			api, cname = cacheOfKV[K]{cache.NewOf[K, int](cache.WithCleanupIntervalOf[K, int](0))}, "CacheOf(default hasher)"
		default:
			api, cname = mapOfKV[K]{cache.NewMapOfPresized[K, int](1000)}, "MapOf(presized 1000)"
		}
	}); p != "" {
		failC10(rt, c10Fail{Type: kt.name, Container: "constructor", Detail: "constructor panicked: " + p})
	}
	ref := map[K]int{}
	var trace []string
	d := func(k K) string {
		if kt.descr != nil {
			return kt.descr(k)
		}
		return fmt.Sprintf("%#v", k)
	}
	next := 0
	usedIdx := map[int]bool{}
	aliasHit, mutated, mutHit := false, false, false
	check := func(what string, k K, gv int, gok bool, wv int, wok bool) {
		if gv != wv || gok != wok {
			failC10(rt, c10Fail{Type: kt.name, Container: cname, Trace: trace,
				Detail: fmt.Sprintf("%s(%s) = (%d,%v), builtin map says (%d,%v)", what, d(k), gv, gok, wv, wok)})
		}
	}
	n := 0
	rt.Repeat(map[string]func(*rapid.T){
		"op": func(rt *rapid.T) {
			n++
			ki := uniform(rt, len(pool), "key")
			k := pool[ki]
			// was an ==-equal but different pool entry used before?
			for j := range pool {
				if j != ki && usedIdx[j] && pool[j] == k {
					aliasHit = true
				}
			}
			usedIdx[ki] = true
			if mutated {
				if _, ok := ref[k]; ok {
					mutHit = true
				}
			}
			op := uniform(rt, 11, "op")
			next++
			v := next
			var gv, so int
			var gok, sl bool
			var p string
			switch op {
			case 0, 1:
				trace = append(trace, fmt.Sprintf("Load(%s)", d(k)))
				p = safe(func() { gv, gok = api.Load(k) })
				wv, wok := ref[k]
				if p == "" {
					check("Load", k, gv, gok, wv, wok)
				}
			case 2, 3:
				trace = append(trace, fmt.Sprintf("Store(%s,%d)", d(k), v))
				p = safe(func() { api.Store(k, v) })
				ref[k] = v
			case 4:
				trace = append(trace, fmt.Sprintf("LoadOrStore(%s,%d)", d(k), v))
				p = safe(func() { gv, gok = api.LoadOrStore(k, v) })
				wv, wok := ref[k]
				if !wok {
					ref[k] = v
					wv = v
				}
				if p == "" {
					check("LoadOrStore", k, gv, gok, wv, wok)
				}
			case 5:
				trace = append(trace, fmt.Sprintf("LoadAndStore(%s,%d)", d(k), v))
				p = safe(func() { gv, gok = api.LoadAndStore(k, v) })
				wv, wok := ref[k]
				if !wok {
					wv = v
					if gv == 0 {
						wv = 0 // not loaded: the companion value is the given one (documented) or zero; only the flag is pinned
					}
				}
				ref[k] = v
				if p == "" {
					check("LoadAndStore", k, gv, gok, wv, wok)
				}
			case 6:
				trace = append(trace, fmt.Sprintf("LoadAndDelete(%s)", d(k)))
				p = safe(func() { gv, gok = api.LoadAndDelete(k) })
				wv, wok := ref[k]
				delete(ref, k)
				if p == "" {
					check("LoadAndDelete", k, gv, gok, wv, wok)
				}
			case 7:
				trace = append(trace, fmt.Sprintf("Delete(%s)", d(k)))
				p = safe(func() { api.Delete(k) })
				delete(ref, k)
			case 8:
				trace = append(trace, fmt.Sprintf("Compute(%s,store %d)", d(k), v))
				p = safe(func() { gv, gok, so, sl = api.ComputeStore(k, v) })
				wv, wok := ref[k]
				ref[k] = v
				if p == "" {
					check("Compute(store): value handed to the function", k, so, sl, wv, wok)
					check("Compute(store)", k, gv, gok, v, true)
				}
			case 9:
				trace = append(trace, fmt.Sprintf("Compute(%s,delete)", d(k)))
				p = safe(func() { gv, gok, so, sl = api.ComputeDelete(k) })
				wv, wok := ref[k]
				delete(ref, k)
				if p == "" {
					check("Compute(delete): value handed to the function", k, so, sl, wv, wok)
					if gok {
						failC10(rt, c10Fail{Type: kt.name, Container: cname, Trace: trace, Detail: "Compute(delete) reported ok=true"})
					}
				}
			default:
				if kt.mutate != nil {
					trace = append(trace, "mutate memory the keys point to")
					kt.mutate(n)
					mutated = true
				}
			}
			if p != "" {
				failC10(rt, c10Fail{Type: kt.name, Container: cname, Trace: trace, Detail: fmt.Sprintf("%s panicked on a valid key: %s", trace[len(trace)-1], p)})
			}
		},
		"": func(rt *rapid.T) {
			if n%5 != 0 {
				return
			}
			got := map[K]int{}
			dup := false
			if p := safe(func() {
				api.Range(func(k K, v int) bool {
					if _, ok := got[k]; ok {
						dup = true
					}
					got[k] = v
					return true
				})
			}); p != "" {
				failC10(rt, c10Fail{Type: kt.name, Container: cname, Trace: trace, Detail: "Range panicked: " + p})
			}
			if dup || len(got) != len(ref) || api.Size() != len(ref) {
				failC10(rt, c10Fail{Type: kt.name, Container: cname, Trace: trace,
					Detail: fmt.Sprintf("Range yields %d distinct keys (duplicate=%v), Size()=%d, builtin map has %d", len(got), dup, api.Size(), len(ref))})
			}
			for k, v := range ref {
				if gv, ok := got[k]; !ok || gv != v {
					failC10(rt, c10Fail{Type: kt.name, Container: cname, Trace: trace,
						Detail: fmt.Sprintf("Range shows (%s)->(%d,%v), builtin map has %d", d(k), gv, ok, v)})
				}
			}
		},
	})
	stats.Inc("cases")
	stats.Inc("cases_type_" + kt.name)
	nt := false
	if aliasHit {
		stats.Inc("cases_equal_keys_with_different_representation")
		nt = true
	}
	if cont == 1 {
		stats.Inc("cases_all_hashes_collide")
		nt = true
	}
	if mutHit {
		stats.Inc("cases_lookup_after_pointee_mutation")
		nt = true
	}
	if nt {
		stats.NonTrivial(stats.Hash64(kt.name, cname, strings.Join(trace, ";")))
	}
	if len(trace) > 25 {
		trace = trace[:25]
	}
	stats.Sample(map[string]interface{}{"key_type": kt.name, "container": cname, "calls": trace})
}

func failC10(rt *rapid.T, f c10Fail) {
	writeReplay("C10", "differential", "keytype:"+f.Type, fmt.Sprintf("key type %s on %s: %s", f.Type, f.Container, f.Detail), f.Trace)
	rt.Fatalf("VIOLATION key type %s on %s: %s\ncalls: %v", f.Type, f.Container, f.Detail, f.Trace)
}

// ---- the catalogue ----

type padded struct {
	A int8
	B int64
	C int16
	D string
}

type nested struct {
	P padded
	S string
	F float64
}

type withIface struct {
	N int
	I interface{}
}

type ptrBox struct{ p *int }
type chanBox struct{ c chan int }
type nestBox struct{ b ptrBox }
type map1Box struct{ a [0]int }
type funcFree struct{ n int }

var boxChans = []chan int{make(chan int, 2), make(chan int, 2)}

func (b ptrBox) String() string { return fmt.Sprintf("box(%p)", b.p) }

type stringer interface{ String() string }
type valStr struct{ s string }
type ptrStr struct{ n int }

func (v valStr) String() string  { return v.s }
func (p *ptrStr) String() string { return fmt.Sprint(p.n) }

// dirtyPadded builds a padded struct inside 0xFF-filled memory, so that its
// padding bytes are garbage while all fields equal those of a clean value.
func dirtyPadded(a int8, b int64, c int16, d string) padded {
	buf := make([]byte, unsafe.Sizeof(padded{})+16)
	for i := range buf {
		buf[i] = 0xFF
	}
	// 8-byte aligned start
	off := uintptr(0)
	for (uintptr(unsafe.Pointer(&buf[0]))+off)%8 != 0 {
		off++
	}
	p := (*padded)(unsafe.Pointer(&buf[off]))
	p.A, p.B, p.C = a, b, c
	*(*string)(unsafe.Pointer(&p.D)) = d
	return *p
}

// pointer-free key shapes with padding that == ignores: trailing padding, blank fields, padding after a pointer.
type tailPad struct {
	ID  uint64
	Tag uint8
}

type blankPad struct {
	A uint32
	_ uint32
	B uint8
	_ [3]byte
	C uint16
}

type ptrPad struct {
	P *int
	T uint8
}

// dirtyOf builds a T inside a buffer pre-filled with `fill`, so that every byte the field writes of `set` do not
// cover (padding, blank fields) is garbage; arrays of such structs are copied bytewise by the compiler.
func dirtyOf[T any](fill byte, set func(*T)) T {
	var z T
	buf := make([]byte, unsafe.Sizeof(z)+16)
	for i := range buf {
		buf[i] = fill
	}
	off := uintptr(0)
	for (uintptr(unsafe.Pointer(&buf[0]))+off)%8 != 0 {
		off++
	}
	p := (*T)(unsafe.Pointer(&buf[off]))
	set(p)
	return *p
}

func cloneStr(s string) string { return string(append([]byte(nil), s...)) }

var (
	cellsI   = make([]int, 6)
	cellsS   = make([]padded, 4)
	ptrStrs  = []*ptrStr{{1}, {1}, {2}}
	nilIntP  *int
	negZero  = math.Copysign(0, -1)
	negZero32 = float32(math.Copysign(0, -1))
)

func anyPool() []interface{} {
	return []interface{}{
		nil, 0, 1, int8(1), int64(1), uint(1), "a", cloneStr("a"), "", 1.5, 0.0, negZero, true, false,
		&cellsI[0], &cellsI[1], &cellsI[0], nilIntP, (*padded)(nil), &cellsS[0],
		padded{1, 2, 3, "x"}, dirtyPadded(1, 2, 3, cloneStr("x")), [2]int{1, 2}, [2]string{"a", "b"},
		valStr{"v"}, ptrStrs[0], ptrStrs[1], complex(1, negZero), complex(1, 0), withIface{1, "z"}, withIface{1, cloneStr("z")},
		struct{}{}, uintptr(7), 'x', float32(0.5),
		// dynamic values that are pointer-SHAPED without being pointers: stored directly in the interface word
		ptrBox{&cellsI[2]}, ptrBox{&cellsI[3]}, ptrBox{&cellsI[2]}, ptrBox{nil}, [1]*int{&cellsI[2]}, [1]*int{nil}, chanBox{boxChans[0]}, chanBox{boxChans[1]}, chanBox{nil},
		nestBox{ptrBox{&cellsI[4]}}, nestBox{ptrBox{nil}}, map1Box{}, funcFree{1},
	}
}

func TestC10(t *testing.T) {
	sel := os.Getenv("VERIF_C10_TYPE")
	run := func(name string, f func(rt *rapid.T)) {
		if sel != "" && sel != name {
			return
		}
		t.Run(name, func(t *testing.T) { rapid.Check(t, f) })
	}
	run("string", func(rt *rapid.T) {
		runKeyCase(rt, keyType[string]{name: "string", pool: func() []string {
			return []string{"", cloneStr(""), "a", cloneStr("a"), "ab", cloneStr("ab"), "b", "k1", cloneStr("k1"), "k10", strings.Repeat("x", 100), cloneStr(strings.Repeat("x", 100)), strings.Repeat("x", 99) + "y"}
		}})
	})
	run("int", func(rt *rapid.T) {
		runKeyCase(rt, keyType[int]{name: "int", pool: func() []int { return []int{0, 1, -1, 2, 1 << 32, 1<<32 + 1, math.MaxInt64, math.MinInt64, 128, 256} }})
	})
	run("int8", func(rt *rapid.T) {
		runKeyCase(rt, keyType[int8]{name: "int8", pool: func() []int8 { return []int8{0, 1, -1, 127, -128, 64} }})
	})
	run("uint16", func(rt *rapid.T) {
		runKeyCase(rt, keyType[uint16]{name: "uint16", pool: func() []uint16 { return []uint16{0, 1, 255, 256, 65535} }})
	})
	run("int32", func(rt *rapid.T) {
		runKeyCase(rt, keyType[int32]{name: "int32", pool: func() []int32 { return []int32{0, 1, -1, math.MaxInt32, math.MinInt32} }})
	})
	run("uint64", func(rt *rapid.T) {
		runKeyCase(rt, keyType[uint64]{name: "uint64", pool: func() []uint64 { return []uint64{0, 1, 1 << 63, math.MaxUint64, 1 << 7, 1 << 8} }})
	})
	run("uintptr", func(rt *rapid.T) {
		runKeyCase(rt, keyType[uintptr]{name: "uintptr", pool: func() []uintptr { return []uintptr{0, 1, 4096, ^uintptr(0)} }})
	})
	run("float64", func(rt *rapid.T) {
		runKeyCase(rt, keyType[float64]{name: "float64", pool: func() []float64 {
			return []float64{0, negZero, 1, -1, math.SmallestNonzeroFloat64, -math.SmallestNonzeroFloat64, math.Inf(1), math.Inf(-1), 1.5, math.Nextafter(1.5, 2), 0.0}
		}, descr: func(f float64) string { return fmt.Sprintf("%g(bits %#x)", f, math.Float64bits(f)) }})
	})
	run("float32", func(rt *rapid.T) {
		runKeyCase(rt, keyType[float32]{name: "float32", pool: func() []float32 {
			return []float32{0, negZero32, 1, -1, math.SmallestNonzeroFloat32, float32(math.Inf(1)), 0.5}
		}, descr: func(f float32) string { return fmt.Sprintf("%g(bits %#x)", f, math.Float32bits(f)) }})
	})
	run("complex128", func(rt *rapid.T) {
		runKeyCase(rt, keyType[complex128]{name: "complex128", pool: func() []complex128 {
			return []complex128{0, complex(negZero, 0), complex(0, negZero), complex(negZero, negZero), 1, complex(1, 1), complex(1, -1)}
		}})
	})
	run("bool", func(rt *rapid.T) {
		runKeyCase(rt, keyType[bool]{name: "bool", pool: func() []bool { return []bool{true, false} }})
	})
	run("pointer", func(rt *rapid.T) {
		cells := make([]int, 5)
		runKeyCase(rt, keyType[*int]{name: "pointer", pool: func() []*int {
			return []*int{&cells[0], &cells[1], &cells[2], &cells[0], nil, &cells[3], &cells[4]}
		}, mutate: func(i int) { cells[i%5] += 1 + i }, descr: func(p *int) string { return fmt.Sprintf("%p", p) }})
	})
	run("array", func(rt *rapid.T) {
		runKeyCase(rt, keyType[[3]int]{name: "array", pool: func() [][3]int {
			return [][3]int{{}, {1, 2, 3}, {1, 2, 4}, {3, 2, 1}, {1, 2, 3}, {0, 0, 1}}
		}})
	})
	run("stringarray", func(rt *rapid.T) {
		runKeyCase(rt, keyType[[2]string]{name: "stringarray", pool: func() [][2]string {
			return [][2]string{{"", ""}, {"a", "b"}, {cloneStr("a"), cloneStr("b")}, {"ab", ""}, {"", "ab"}, {"b", "a"}}
		}})
	})
	run("paddedstruct", func(rt *rapid.T) {
		runKeyCase(rt, keyType[padded]{name: "paddedstruct", pool: func() []padded {
			return []padded{{}, dirtyPadded(0, 0, 0, ""), {1, 2, 3, "x"}, dirtyPadded(1, 2, 3, cloneStr("x")), {1, 2, 3, "y"}, dirtyPadded(1, 2, 4, "x"), {-1, -1, -1, ""}, dirtyPadded(-1, -1, -1, "")}
		}})
	})
	run("tailpadarray", func(rt *rapid.T) {
		mk := func(fill byte, a, b uint64, ta, tb uint8) [2]tailPad {
			return dirtyOf(fill, func(p *[2]tailPad) { p[0].ID, p[0].Tag, p[1].ID, p[1].Tag = a, ta, b, tb })
		}
		runKeyCase(rt, keyType[[2]tailPad]{name: "tailpadarray", pool: func() [][2]tailPad {
			return [][2]tailPad{{}, mk(0xA5, 0, 0, 0, 0), {{1, 2}, {3, 4}}, mk(0xA5, 1, 3, 2, 4), mk(0x5A, 1, 3, 2, 4), mk(0xFF, 1, 3, 2, 5), mk(0x00, 3, 1, 4, 2), mk(0x77, 3, 1, 4, 2)}
		}, descr: func(k [2]tailPad) string { return fmt.Sprintf("%v", k) }})
	})
	run("tailpadstruct", func(rt *rapid.T) {
		type wrap struct {
			H tailPad
			N [2]tailPad
		}
		mk := func(fill byte, a uint64, t uint8) wrap {
			return dirtyOf(fill, func(p *wrap) { p.H.ID, p.H.Tag, p.N[0].ID, p.N[0].Tag, p.N[1].ID, p.N[1].Tag = a, t, a+1, t, a+2, t+1 })
		}
		runKeyCase(rt, keyType[wrap]{name: "tailpadstruct", pool: func() []wrap {
			return []wrap{{}, mk(0xA5, 0, 0), mk(0x11, 7, 1), mk(0xEE, 7, 1), mk(0x00, 7, 1), mk(0xA5, 7, 2), mk(0xA5, 8, 1)}
		}, descr: func(k wrap) string { return fmt.Sprintf("%v", k) }})
	})
	run("blankfieldarray", func(rt *rapid.T) {
		mk := func(fill byte, a uint32, b uint8, c uint16) [2]blankPad {
			return dirtyOf(fill, func(p *[2]blankPad) { p[0].A, p[0].B, p[0].C, p[1].A, p[1].B, p[1].C = a, b, c, a+1, b, c })
		}
		runKeyCase(rt, keyType[[2]blankPad]{name: "blankfieldarray", pool: func() [][2]blankPad {
			return [][2]blankPad{{}, mk(0xA5, 0, 0, 0), mk(0x00, 1, 2, 3), mk(0xC3, 1, 2, 3), mk(0x3C, 1, 2, 3), mk(0xC3, 1, 2, 4), mk(0xC3, 2, 2, 3)}
		}, descr: func(k [2]blankPad) string { return fmt.Sprintf("{%d %d %d}{%d %d %d}", k[0].A, k[0].B, k[0].C, k[1].A, k[1].B, k[1].C) }})
	})
	run("pointerpadarray", func(rt *rapid.T) {
		mk := func(fill byte, p0, p1 *int, t uint8) [2]ptrPad {
			return dirtyOf(fill, func(p *[2]ptrPad) { p[0].P, p[0].T, p[1].P, p[1].T = p0, t, p1, t+1 })
		}
		runKeyCase(rt, keyType[[2]ptrPad]{name: "pointerpadarray", pool: func() [][2]ptrPad {
			return [][2]ptrPad{{}, mk(0x00, &cellsI[0], &cellsI[1], 1), mk(0xA5, &cellsI[0], &cellsI[1], 1), mk(0x5A, &cellsI[0], &cellsI[1], 1), mk(0xA5, &cellsI[1], &cellsI[0], 1), mk(0xA5, &cellsI[0], &cellsI[1], 2), mk(0xA5, nil, nil, 0)}
		}, mutate: func(i int) { cellsI[i%2] += i + 1 },
			descr: func(k [2]ptrPad) string { return fmt.Sprintf("{%p %d}{%p %d}", k[0].P, k[0].T, k[1].P, k[1].T) }})
	})
	run("nestedstruct", func(rt *rapid.T) {
		runKeyCase(rt, keyType[nested]{name: "nestedstruct", pool: func() []nested {
			return []nested{{}, {P: dirtyPadded(0, 0, 0, ""), F: negZero}, {P: padded{1, 2, 3, "x"}, S: "s", F: 1}, {P: dirtyPadded(1, 2, 3, cloneStr("x")), S: cloneStr("s"), F: 1}, {S: "s"}, {F: 2}}
		}})
	})
	run("structwithinterface", func(rt *rapid.T) {
		runKeyCase(rt, keyType[withIface]{name: "structwithinterface", pool: func() []withIface {
			return []withIface{{}, {1, nil}, {1, 1}, {1, "1"}, {1, cloneStr("1")}, {1, 1.0}, {2, &cellsI[0]}, {2, &cellsI[1]}, {1, padded{1, 2, 3, "x"}}, {1, dirtyPadded(1, 2, 3, "x")}}
		}})
	})
	run("any", func(rt *rapid.T) {
		runKeyCase(rt, keyType[interface{}]{name: "any", pool: anyPool,
			mutate: func(i int) {
				cellsI[i%len(cellsI)] += i + 1
				cellsS[i%len(cellsS)].B += int64(i) + 1
				ptrStrs[i%len(ptrStrs)].n += i + 1
				select { // change the fill of a wrapped channel's buffer
				case boxChans[i%2] <- i:
				default:
					<-boxChans[i%2]
				}
			},
			descr: func(k interface{}) string { return fmt.Sprintf("%T(%v)", k, k) }})
	})
	run("chan", func(rt *rapid.T) {
		chans := []chan int{make(chan int), make(chan int, 1), make(chan int)}
		runKeyCase(rt, keyType[chan int]{name: "chan", pool: func() []chan int {
			return []chan int{chans[0], chans[1], chans[2], chans[0], nil}
		}, descr: func(c chan int) string { return fmt.Sprintf("%p", c) }})
	})
	run("unsafepointer", func(rt *rapid.T) {
		cells := make([]int64, 4)
		runKeyCase(rt, keyType[unsafe.Pointer]{name: "unsafepointer", pool: func() []unsafe.Pointer {
			return []unsafe.Pointer{unsafe.Pointer(&cells[0]), unsafe.Pointer(&cells[1]), nil, unsafe.Pointer(&cells[0]), unsafe.Pointer(&cells[3])}
		}, mutate: func(i int) { cells[i%4] += int64(i) + 1 }, descr: func(p unsafe.Pointer) string { return fmt.Sprintf("%p", p) }})
	})
	run("namedstring", func(rt *rapid.T) {
		type name string
		runKeyCase(rt, keyType[name]{name: "namedstring", pool: func() []name {
			return []name{"", name(cloneStr("")), "a", name(cloneStr("a")), "aa", "b", name(strings.Repeat("z", 40)), name(cloneStr(strings.Repeat("z", 40)))}
		}})
	})
	run("interfacearray", func(rt *rapid.T) {
		runKeyCase(rt, keyType[[2]interface{}]{name: "interfacearray", pool: func() [][2]interface{} {
			return [][2]interface{}{{}, {nil, 1}, {1, nil}, {"a", 1}, {cloneStr("a"), 1}, {0.0, negZero}, {negZero, 0.0}, {&cellsI[0], nilIntP}, {&cellsI[0], nilIntP}}
		}, mutate: func(i int) { cellsI[0] += i + 1 }})
	})
	run("emptystruct", func(rt *rapid.T) {
		runKeyCase(rt, keyType[struct{}]{name: "emptystruct", pool: func() []struct{} { return []struct{}{{}, {}} }})
	})
	run("structpointer", func(rt *rapid.T) {
		objs := []*padded{{A: 1}, {A: 1}, {A: 2}}
		runKeyCase(rt, keyType[*padded]{name: "structpointer", pool: func() []*padded {
			return []*padded{objs[0], objs[1], objs[2], objs[0], nil}
		}, mutate: func(i int) { objs[i%3].B += int64(i) + 1; objs[i%3].D += "x" }, descr: func(p *padded) string { return fmt.Sprintf("%p", p) }})
	})
	run("uint8", func(rt *rapid.T) {
		runKeyCase(rt, keyType[uint8]{name: "uint8", pool: func() []uint8 { return []uint8{0, 1, 127, 128, 255} }})
	})
	run("int64", func(rt *rapid.T) {
		runKeyCase(rt, keyType[int64]{name: "int64", pool: func() []int64 { return []int64{0, 1, -1, 1 << 40, -(1 << 40), math.MaxInt64, math.MinInt64} }})
	})
	run("embeddedstruct", func(rt *rapid.T) {
		type inner struct {
			X uint8
			Y float32
		}
		type outer struct {
			inner
			Z [2]inner
			W bool
		}
		mk := func(x uint8, y float32, w bool) outer {
			// built through a dirtied buffer so that padding bytes are garbage
			buf := make([]byte, unsafe.Sizeof(outer{})+16)
			for i := range buf {
				buf[i] = 0xA5
			}
			off := uintptr(0)
			for (uintptr(unsafe.Pointer(&buf[0]))+off)%8 != 0 {
				off++
			}
			o := (*outer)(unsafe.Pointer(&buf[off]))
			o.X, o.Y, o.W = x, y, w
			o.Z[0].X, o.Z[0].Y, o.Z[1].X, o.Z[1].Y = x+1, y, x+2, -y
			return *o
		}
		runKeyCase(rt, keyType[outer]{name: "embeddedstruct", pool: func() []outer {
			a := outer{inner: inner{1, 0}, W: true}
			a.Z[0], a.Z[1] = inner{2, 0}, inner{3, negZero32}
			return []outer{{}, a, mk(1, 0, true), mk(1, negZero32, true), mk(2, 1.5, false), mk(2, 1.5, false), mk(2, 1.5, true)}
		}})
	})
	run("nonemptyinterface", func(rt *rapid.T) {
		runKeyCase(rt, keyType[stringer]{name: "nonemptyinterface", pool: func() []stringer {
			return []stringer{nil, valStr{"a"}, valStr{cloneStr("a")}, valStr{"b"}, ptrStrs[0], ptrStrs[1], ptrStrs[2], ptrStrs[0], (*ptrStr)(nil),
				ptrBox{&cellsI[2]}, ptrBox{&cellsI[3]}, ptrBox{&cellsI[2]}, ptrBox{nil}}
		}, mutate: func(i int) { ptrStrs[i%len(ptrStrs)].n += i + 1; cellsI[2+i%2] += i + 1 },
			descr: func(k stringer) string { return fmt.Sprintf("%T(%p)", k, k) }})
	})
}
