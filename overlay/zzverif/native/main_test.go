package native

import (
	"encoding/json"
	"os"
	"testing"

	"github.com/fufuok/cache/zzverif/stats"
)

func TestMain(m *testing.M) {
	code := m.Run()
	stats.Flush()
	os.Exit(code)
}

func tier() string {
	if t := os.Getenv("VERIF_TIER"); t != "" {
		return t
	}
	return "quick"
}

// writeReplay stores a failing native case (rapid re-runs the minimal case last).
func writeReplay(prop, kind, desc, detail string, trace []string) {
	p := os.Getenv("VERIF_REPLAY_OUT")
	if p == "" {
		return
	}
	v := map[string]interface{}{"property": prop, "kind": kind, "descriptor": desc, "detail": detail, "history": trace, "engine": "E3"}
	if extra := os.Getenv("VERIF_CASE_SEED"); extra != "" {
		v["rapid_seed"] = extra
	}
	b, _ := json.MarshalIndent(v, "", " ")
	_ = os.WriteFile(p, b, 0o644)
}
