package native

import (
	"encoding/json"
	"fmt"
	"os"
	"strconv"
	"sync"
	"testing"

	"github.com/fufuok/cache/zzverif/adapt"
	"github.com/fufuok/cache/zzverif/model"
	"github.com/fufuok/cache/zzverif/stats"
	"pgregory.net/rapid"
)

// C14, second half: natively parallel programs over DISJOINT key sets under the race detector.
// Every goroutine owns its keys, so each of its calls must agree exactly with its own sequential
// reference model although all goroutines share buckets, chains and every resize — an oracle for
// "everything written before a value is stored is visible to whoever obtains it" and for lost
// updates that does not depend on my scheduler (real threads, real memory model).

type natLong struct {
	Spec adapt.Spec `json:"spec"`
	G    int        `json:"goroutines"`
	K    int        `json:"keys_per_goroutine"`
	N    int        `json:"calls_per_goroutine"`
	Seed uint64     `json:"seed"`
}

var natLongGen = rapid.Custom(func(t *rapid.T) natLong {
	p := natLong{}
	p.Spec.Kind = []string{"map", "mapof", "cache", "cacheof"}[uniform(t, 4, "container")]
	if p.Spec.Kind == "mapof" || p.Spec.Kind == "cacheof" {
		p.Spec.Key = []string{"int", "string"}[uniform(t, 2, "keytype")]
	}
	if p.Spec.Kind == "mapof" {
		p.Spec.Hasher = []string{"", "", "lowbits", "sameh2"}[uniform(t, 4, "hasher")]
	}
	p.Spec.Native = true
	// no evicted callback here: the adapters attribute callbacks to virtual threads, which do not exist natively
	p.G = []int{2, 4, 8, 16}[uniform(t, 4, "goroutines")]
	p.K = []int{8, 40, 120}[uniform(t, 3, "keys")]
	p.N = []int{200, 1000, 3000}[uniform(t, 3, "calls")]
	p.Seed = rapid.Uint64().Draw(t, "seed")
	return p
})

func runNatLong(p natLong) string {
	api := adapt.New(p.Spec)
	isCache := p.Spec.IsCache()
	var wg sync.WaitGroup
	errs := make([]string, p.G)
	models := make([]*model.M, p.G)
	start := make(chan struct{})
	for g := 0; g < p.G; g++ {
		models[g] = model.New(p.K, 0, model.NoExpiration, p.Spec.CB)
		wg.Add(1)
		go func(g int) {
			defer wg.Done()
			defer func() {
				if r := recover(); r != nil {
					errs[g] = fmt.Sprintf("goroutine %d panicked: %v", g, r)
				}
			}()
			r := &prng{s: p.Seed + uint64(g)*0x9e37}
			m := models[g]
			<-start
			for i := 0; i < p.N; i++ {
				phase := i * 3 / p.N
				var o model.Op
				o.Key = int(r.next() % uint64(p.K))
				if phase != 1 && r.next()%4 != 0 {
					o.Key = i % p.K
				}
				o.Val = g*1000000 + i + 1
				c := int(r.next() % 100)
				ins, del := 45, 25
				if phase == 0 {
					ins, del = 80, 5
				} else if phase == 2 {
					ins, del = 10, 75
				}
				switch {
				case c < ins:
					if isCache {
						o.K = []model.Kind{model.CSet, model.CSetForever, model.CGetOrSet, model.CGetAndSet, model.CGetOrCompute, model.CCompute}[r.next()%6]
						o.D = model.NoExpiration
					} else {
						o.K = []model.Kind{model.MStore, model.MLoadOrStore, model.MLoadAndStore, model.MLoadOrCompute, model.MCompute}[r.next()%5]
					}
					o.Fn = model.FnStore
				case c < ins+del:
					if isCache {
						o.K = []model.Kind{model.CDelete, model.CGetAndDelete, model.CCompute}[r.next()%3]
					} else {
						o.K = []model.Kind{model.MDelete, model.MLoadAndDelete, model.MCompute}[r.next()%3]
					}
					o.Fn = model.FnDelete
				default:
					if isCache {
						o.K = []model.Kind{model.CGet, model.CGetExp, model.CGetAndRefresh, model.CGet}[r.next()%4]
						o.D = model.NoExpiration
					} else {
						o.K = model.MLoad
					}
					if r.next()%40 == 0 {
						if isCache {
							o.K = model.CRange
						} else {
							o.K = model.MRange
						}
					}
				}
				gop := o
				gop.Key = g*1000 + o.Key
				res := api.Do(&gop)
				if len(res.Vis) > 0 {
					var own []model.KV
					for _, kv := range res.Vis {
						if kv.K >= 0 && kv.K/1000 == g {
							own = append(own, model.KV{K: kv.K % 1000, V: kv.V})
						}
					}
					res.Vis = own
				}
				for j := range res.Ev {
					if res.Ev[j].K/1000 == g {
						res.Ev[j].K %= 1000
					} else {
						res.Ev[j].K = -1 - res.Ev[j].K
					}
				}
				if err := m.Step(&o, &res); err != nil {
					errs[g] = fmt.Sprintf("goroutine %d call %d %s -> %s: %v (only this goroutine ever touches this key)", g, i, gop.String(), res.String(), err)
					return
				}
			}
		}(g)
	}
	close(start)
	wg.Wait()
	for _, e := range errs {
		if e != "" {
			return e
		}
	}
	// quiescent read-back
	live := 0
	kLoad, kSize := model.MLoad, model.MSize
	if isCache {
		kLoad, kSize = model.CGet, model.CCount
	}
	for g := 0; g < p.G; g++ {
		for k := 0; k < p.K; k++ {
			o := model.Op{K: kLoad, Key: k}
			gop := o
			gop.Key = g*1000 + k
			res := api.Do(&gop)
			if err := models[g].Step(&o, &res); err != nil {
				return fmt.Sprintf("quiescent %s -> %s: %v", gop.String(), res.String(), err)
			}
			if res.OK {
				live++
			}
		}
	}
	so := model.Op{K: kSize}
	if n := int(api.Do(&so).T); n != live {
		return fmt.Sprintf("at quiescence Size/Count = %d but %d keys load successfully", n, live)
	}
	return ""
}

func TestC14Long(t *testing.T) {
	n := 6
	if v, err := strconv.Atoi(os.Getenv("VERIF_C14_LONG")); err == nil && v > 0 {
		n = v
	}
	base, _ := strconv.Atoi(os.Getenv("VERIF_CASE_SEED"))
	for i := 0; i < n; i++ {
		p := natLongGen.Example(base*100003 + 7000 + i)
		pj, _ := json.Marshal(p)
		var errText string
		ok := t.Run(fmt.Sprintf("long%d", i), func(t *testing.T) {
			errText = runNatLong(p)
			if errText != "" {
				t.Errorf("VIOLATION per-goroutine model: %s\nprogram: %s", errText, pj)
			}
		})
		stats.Inc("cases")
		stats.Inc("disjoint_key_programs")
		stats.Add("calls_total", int64(p.G*p.N))
		stats.NonTrivial(stats.Hash64("long", string(pj)))
		stats.Sample(map[string]interface{}{"disjoint_key_program": p})
		if !ok {
			kind, detail := "model", errText
			if detail == "" {
				kind, detail = "race", "the Go race detector reported a data race during this program (report in the shard output)"
			}
			writeReplayProg("C14", kind, detail, pj)
			t.Fatalf("VIOLATION property=C14 %s: %s program=%s", kind, detail, pj)
		}
	}
}
