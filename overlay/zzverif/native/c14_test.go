package native

import (
	"encoding/json"
	"fmt"
	"os"
	"strconv"
	"sync"
	"sync/atomic"
	"testing"
	"time"

	cache "github.com/fufuok/cache"
	"github.com/fufuok/cache/zzverif/stats"
	"pgregory.net/rapid"
)

// C14: data-race freedom and safe publication. rapid generates parallel
// programs (harvested deterministically with Generator.Example), each program
// runs natively as its own subtest under the race detector; every value read
// back is a pointer to a payload whose checksum must be consistent.

type payload struct {
	a, b, c uint64
	pad     [5]uint64
	sum     uint64
}

func newPayload(x uint64) *payload {
	p := &payload{a: x, b: x * 3, c: ^x}
	for i := range p.pad {
		p.pad[i] = x + uint64(i)
	}
	p.sum = p.a + p.b + p.c + p.pad[0] + p.pad[4]
	return p
}

func (p *payload) ok() bool {
	return p != nil && p.sum == p.a+p.b+p.c+p.pad[0]+p.pad[4]
}

// rc is the face all four containers show to the parallel workers.
type rc interface {
	set(k int, p *payload, d time.Duration)
	get(k int) (*payload, bool)
	del(k int)
	getOrSet(k int, p *payload, d time.Duration) (*payload, bool)
	getAndSet(k int, p *payload, d time.Duration) (*payload, bool)
	getOrCompute(k int, f func() *payload, d time.Duration) (*payload, bool)
	compute(k int, f func(old *payload, loaded bool) (*payload, bool), d time.Duration) (*payload, bool)
	getAndDel(k int) (*payload, bool)
	rng(f func(k int, p *payload) bool)
	clear()
	size() int
	settings(i int) // churn of SetDefaultExpiration / SetEvictedCallback / DeleteExpired / Items (caches)
}

func asP(v interface{}) *payload {
	if v == nil {
		return nil
	}
	p, _ := v.(*payload)
	return p
}

type rcMap struct{ m cache.Map }

func sk(k int) string { return "key-" + strconv.Itoa(k) }

func (c rcMap) set(k int, p *payload, d time.Duration) { c.m.Store(sk(k), p) }
func (c rcMap) get(k int) (*payload, bool)              { v, ok := c.m.Load(sk(k)); return asP(v), ok }
func (c rcMap) del(k int)                               { c.m.Delete(sk(k)) }
func (c rcMap) getOrSet(k int, p *payload, d time.Duration) (*payload, bool) {
	v, ok := c.m.LoadOrStore(sk(k), p)
	return asP(v), ok
}
func (c rcMap) getAndSet(k int, p *payload, d time.Duration) (*payload, bool) {
	v, ok := c.m.LoadAndStore(sk(k), p)
	return asP(v), ok
}
func (c rcMap) getOrCompute(k int, f func() *payload, d time.Duration) (*payload, bool) {
	v, ok := c.m.LoadOrCompute(sk(k), func() interface{} { return f() })
	return asP(v), ok
}
func (c rcMap) compute(k int, f func(*payload, bool) (*payload, bool), d time.Duration) (*payload, bool) {
	v, ok := c.m.Compute(sk(k), func(old interface{}, l bool) (interface{}, bool) { return f(asP(old), l) })
	return asP(v), ok
}
func (c rcMap) getAndDel(k int) (*payload, bool) { v, ok := c.m.LoadAndDelete(sk(k)); return asP(v), ok }
func (c rcMap) rng(f func(int, *payload) bool) {
	c.m.Range(func(k string, v interface{}) bool { return f(0, asP(v)) })
}
func (c rcMap) clear()         { c.m.Clear() }
func (c rcMap) size() int      { return c.m.Size() }
func (c rcMap) settings(i int) { _ = c.m.Size() }

type rcMapOf struct{ m cache.MapOf[int, *payload] }

func (c rcMapOf) set(k int, p *payload, d time.Duration) { c.m.Store(k, p) }
func (c rcMapOf) get(k int) (*payload, bool)              { return c.m.Load(k) }
func (c rcMapOf) del(k int)                               { c.m.Delete(k) }
func (c rcMapOf) getOrSet(k int, p *payload, d time.Duration) (*payload, bool) {
	return c.m.LoadOrStore(k, p)
}
func (c rcMapOf) getAndSet(k int, p *payload, d time.Duration) (*payload, bool) {
	return c.m.LoadAndStore(k, p)
}
func (c rcMapOf) getOrCompute(k int, f func() *payload, d time.Duration) (*payload, bool) {
	return c.m.LoadOrCompute(k, f)
}
func (c rcMapOf) compute(k int, f func(*payload, bool) (*payload, bool), d time.Duration) (*payload, bool) {
	return c.m.Compute(k, f)
}
func (c rcMapOf) getAndDel(k int) (*payload, bool)   { return c.m.LoadAndDelete(k) }
func (c rcMapOf) rng(f func(int, *payload) bool)     { c.m.Range(f) }
func (c rcMapOf) clear()                             { c.m.Clear() }
func (c rcMapOf) size() int                          { return c.m.Size() }
func (c rcMapOf) settings(i int)                     { _ = c.m.Size() }

type rcCache struct {
	c   cache.Cache
	evs *int64
}

func (c rcCache) set(k int, p *payload, d time.Duration) { c.c.Set(sk(k), p, d) }
func (c rcCache) get(k int) (*payload, bool) {
	switch k % 3 {
	case 0:
		v, ok := c.c.Get(sk(k))
		return asP(v), ok
	case 1:
		v, _, ok := c.c.GetWithExpiration(sk(k))
		return asP(v), ok
	}
	v, _, ok := c.c.GetWithTTL(sk(k))
	return asP(v), ok
}
func (c rcCache) del(k int) { c.c.Delete(sk(k)) }
func (c rcCache) getOrSet(k int, p *payload, d time.Duration) (*payload, bool) {
	v, ok := c.c.GetOrSet(sk(k), p, d)
	return asP(v), ok
}
func (c rcCache) getAndSet(k int, p *payload, d time.Duration) (*payload, bool) {
	if k%4 == 0 {
		v, ok := c.c.GetAndRefresh(sk(k), d)
		return asP(v), ok
	}
	v, ok := c.c.GetAndSet(sk(k), p, d)
	return asP(v), ok
}
func (c rcCache) getOrCompute(k int, f func() *payload, d time.Duration) (*payload, bool) {
	v, ok := c.c.GetOrCompute(sk(k), func() interface{} { return f() }, d)
	return asP(v), ok
}
func (c rcCache) compute(k int, f func(*payload, bool) (*payload, bool), d time.Duration) (*payload, bool) {
	v, ok := c.c.Compute(sk(k), func(old interface{}, l bool) (interface{}, bool) { return f(asP(old), l) }, d)
	return asP(v), ok
}
func (c rcCache) getAndDel(k int) (*payload, bool) { v, ok := c.c.GetAndDelete(sk(k)); return asP(v), ok }
func (c rcCache) rng(f func(int, *payload) bool) {
	c.c.Range(func(k string, v interface{}) bool { return f(0, asP(v)) })
}
func (c rcCache) clear()    { c.c.Clear() }
func (c rcCache) size() int { return c.c.Count() }
func (c rcCache) settings(i int) {
	switch i % 6 {
	case 0:
		c.c.SetDefaultExpiration(time.Duration(i%5) * time.Millisecond)
	case 1:
		_ = c.c.DefaultExpiration()
	case 2:
		evs := c.evs
		c.c.SetEvictedCallback(func(k string, v interface{}) {
			if !asP(v).ok() {
				panic("evicted callback received a torn payload")
			}
			atomic.AddInt64(evs, 1)
		})
	case 3:
		c.c.SetEvictedCallback(nil)
	case 4:
		c.c.DeleteExpired()
	default:
		for _, v := range c.c.Items() {
			if !asP(v).ok() {
				panic("Items returned a torn payload")
			}
		}
	}
}

type rcCacheOf struct {
	c   cache.CacheOf[string, *payload]
	evs *int64
}

func (c rcCacheOf) set(k int, p *payload, d time.Duration) { c.c.Set(sk(k), p, d) }
func (c rcCacheOf) get(k int) (*payload, bool) {
	switch k % 3 {
	case 0:
		return c.c.Get(sk(k))
	case 1:
		v, _, ok := c.c.GetWithExpiration(sk(k))
		return v, ok
	}
	v, _, ok := c.c.GetWithTTL(sk(k))
	return v, ok
}
func (c rcCacheOf) del(k int) { c.c.Delete(sk(k)) }
func (c rcCacheOf) getOrSet(k int, p *payload, d time.Duration) (*payload, bool) {
	return c.c.GetOrSet(sk(k), p, d)
}
func (c rcCacheOf) getAndSet(k int, p *payload, d time.Duration) (*payload, bool) {
	if k%4 == 0 {
		return c.c.GetAndRefresh(sk(k), d)
	}
	return c.c.GetAndSet(sk(k), p, d)
}
func (c rcCacheOf) getOrCompute(k int, f func() *payload, d time.Duration) (*payload, bool) {
	return c.c.GetOrCompute(sk(k), f, d)
}
func (c rcCacheOf) compute(k int, f func(*payload, bool) (*payload, bool), d time.Duration) (*payload, bool) {
	return c.c.Compute(sk(k), f, d)
}
func (c rcCacheOf) getAndDel(k int) (*payload, bool) { return c.c.GetAndDelete(sk(k)) }
func (c rcCacheOf) rng(f func(int, *payload) bool) {
	c.c.Range(func(k string, v *payload) bool { return f(0, v) })
}
func (c rcCacheOf) clear()    { c.c.Clear() }
func (c rcCacheOf) size() int { return c.c.Count() }
func (c rcCacheOf) settings(i int) {
	switch i % 6 {
	case 0:
		c.c.SetDefaultExpiration(time.Duration(i%5) * time.Millisecond)
	case 1:
		_ = c.c.DefaultExpiration()
	case 2:
		evs := c.evs
		c.c.SetEvictedCallback(func(k string, v *payload) {
			if !v.ok() {
				panic("evicted callback received a torn payload")
			}
			atomic.AddInt64(evs, 1)
		})
	case 3:
		c.c.SetEvictedCallback(nil)
	case 4:
		c.c.DeleteExpired()
	default:
		for _, v := range c.c.Items() {
			if !v.ok() {
				panic("Items returned a torn payload")
			}
		}
	}
}

// parProgram is a generated parallel program (data).
type parProgram struct {
	Container string `json:"container"` // map | mapof | cache | cacheof
	Profile   string `json:"profile"`   // write | read | range | settings | resize | janitor | bigtable | shrinkedge
	Fill      int    `json:"fill,omitempty"`   // shrinkedge: keys stored and removed again before the goroutines start
	Rounds    int    `json:"rounds,omitempty"` // shrinkedge: fresh containers per program
	Extra     int    `json:"extra,omitempty"`  // shrinkedge: keys that stay put next to the toggled ones
	G         int    `json:"goroutines"`
	Ops       int    `json:"ops_per_goroutine"`
	Keys      int    `json:"key_range"`
	Seed      uint64 `json:"seed"`
}

var parGen = rapid.Custom(func(t *rapid.T) parProgram {
	p := parProgram{}
	p.Container = []string{"map", "mapof", "cache", "cacheof"}[uniform(t, 4, "container")]
	p.Profile = []string{"write", "read", "range", "settings", "resize", "janitor", "bigtable", "shrinkedge", "multi"}[uniform(t, 9, "profile")]
	p.G = []int{2, 3, 4, 8, 16, 32, 64}[uniform(t, 7, "goroutines")]
	p.Ops = []int{50, 200, 600, 2000}[uniform(t, 4, "ops")]
	if p.G >= 32 && p.Ops > 600 {
		p.Ops = 600
	}
	p.Keys = []int{1, 2, 8, 64, 400}[uniform(t, 5, "keys")]
	if p.Profile == "resize" {
		p.Keys = []int{300, 1000, 4000}[uniform(t, 3, "resizeKeys")]
	}
	if p.Profile == "bigtable" {
		// tables of thousands of buckets: resize strategies may differ there
		p.Keys = []int{12000, 30000}[uniform(t, 2, "bigKeys")]
		p.G = []int{2, 4, 8}[uniform(t, 3, "bigG")]
		p.Ops = 24000 / p.G
	}
	if p.Profile == "shrinkedge" {
		// a table that grew and was drained again, with a handful of keys toggled around the shrink threshold:
		// the resize entry/exit paths that "change their mind" are only taken here
		p.Fill = []int{200, 600, 2500}[uniform(t, 3, "fill")]
		p.Keys = []int{3, 4, 6}[uniform(t, 3, "edgeKeys")]
		p.Extra = []int{0, 1, 2, 4, 8, 16}[uniform(t, 6, "edgeExtra")]
		p.G = []int{3, 4, 6}[uniform(t, 3, "edgeG")]
		p.Ops = []int{100, 200}[uniform(t, 2, "edgeOps")]
		p.Rounds = 16
	}
	if p.Profile == "multi" {
		// every goroutine owns containers of its own and keeps constructing, growing, draining and clearing them:
		// whatever the package shares BETWEEN containers (seed sources, pools, registries) is exercised concurrently
		p.G = []int{2, 4, 8, 16}[uniform(t, 4, "multiG")]
		p.Ops = []int{6, 12, 24}[uniform(t, 3, "multiRounds")] // containers per goroutine
		p.Keys = []int{40, 200, 700}[uniform(t, 3, "multiKeys")]
	}
	p.Seed = rapid.Uint64().Draw(t, "seed")
	return p
})

type prng struct{ s uint64 }

func (r *prng) next() uint64 {
	r.s += 0x9e3779b97f4a7c15
	z := r.s
	z = (z ^ (z >> 30)) * 0xbf58476d1ce4e5b9
	z = (z ^ (z >> 27)) * 0x94d049bb133111eb
	return z ^ (z >> 31)
}

func buildRC(p parProgram, evs *int64) rc {
	interval := time.Duration(0)
	if p.Profile == "janitor" {
		interval = time.Millisecond
	}
	switch p.Container {
	case "map":
		return rcMap{cache.NewMap()}
	case "mapof":
		return rcMapOf{cache.NewMapOf[int, *payload]()}
	case "cache":
		return rcCache{cache.New(cache.WithCleanupInterval(interval), cache.WithDefaultExpiration(2*time.Millisecond),
			cache.WithEvictedCallback(func(k string, v interface{}) {
				if !asP(v).ok() {
					panic("evicted callback received a torn payload")
				}
				atomic.AddInt64(evs, 1)
			})), evs}
	default:
		return rcCacheOf{cache.NewOf[string, *payload](cache.WithCleanupIntervalOf[string, *payload](interval), cache.WithDefaultExpirationOf[string, *payload](2*time.Millisecond),
			cache.WithEvictedCallbackOf[string, *payload](func(k string, v *payload) {
				if !v.ok() {
					panic("evicted callback received a torn payload")
				}
				atomic.AddInt64(evs, 1)
			})), evs}
	}
}

// weights per profile: set get del getOrSet getAndSet getOrCompute compute getAndDel range clear size settings
var profW = map[string][12]int{
	"write":    {30, 8, 12, 8, 8, 6, 12, 6, 2, 1, 2, 0},
	"read":     {6, 60, 2, 6, 2, 4, 2, 1, 4, 0, 6, 1},
	"range":    {20, 8, 10, 4, 4, 2, 6, 4, 30, 1, 4, 2},
	"settings": {14, 14, 6, 6, 6, 4, 6, 4, 4, 1, 4, 30},
	"resize":   {34, 6, 30, 4, 2, 2, 6, 4, 2, 4, 2, 1},
	"janitor":  {30, 20, 4, 8, 6, 6, 8, 4, 4, 1, 4, 5},
	"bigtable": {60, 10, 6, 6, 4, 4, 6, 2, 0, 0, 2, 0},
	"shrinkedge": {40, 4, 36, 2, 2, 2, 6, 6, 0, 0, 2, 0},
}

// runPar executes the program natively; returns an error text on a payload integrity failure.
func runPar(p parProgram) (string, map[string]int64) {
	rounds := 1
	if p.Profile == "shrinkedge" && p.Rounds > 1 {
		rounds = p.Rounds
	}
	total := map[string]int64{}
	for r := 0; r < rounds; r++ {
		q := p
		q.Seed += uint64(r) * 0x9e3779b9
		e, cm := runParRound(q)
		for k, v := range cm {
			total[k] += v
		}
		if e != "" {
			return e, total
		}
	}
	return "", total
}

// runMulti: profile "multi" — no container is shared; the goroutines share only the package.
func runMulti(p parProgram) (string, map[string]int64) {
	var wg sync.WaitGroup
	var bad atomic.Value
	var evs, made, calls int64
	start := make(chan struct{})
	for g := 0; g < p.G; g++ {
		wg.Add(1)
		go func(g int) {
			defer wg.Done()
			defer func() {
				if r := recover(); r != nil {
					bad.Store(fmt.Sprintf("goroutine %d panicked: %v", g, r))
				}
			}()
			r := &prng{s: p.Seed + uint64(g)*0x1234567}
			<-start
			for round := 0; round < p.Ops; round++ {
				q := p
				q.Profile = []string{"write", "janitor"}[r.next()%2]
				q.Container = []string{"map", "mapof", "cache", "cacheof"}[(uint64(g)+r.next())%4]
				c := buildRC(q, &evs)
				atomic.AddInt64(&made, 1)
				n := int(r.next()%uint64(p.Keys)) + 1
				for i := 0; i < n; i++ {
					c.set(i, newPayload(r.next()), cache.NoExpiration)
				}
				for i := 0; i < n; i++ {
					if pl, ok := c.get(i); !ok || pl == nil || !pl.ok() {
						bad.Store(fmt.Sprintf("goroutine %d: key %d of its own private container reads back (%v,%v)", g, i, pl, ok))
						return
					}
				}
				if c.size() != n {
					bad.Store(fmt.Sprintf("goroutine %d: private container holds %d entries after storing %d", g, c.size(), n))
					return
				}
				if r.next()%2 == 0 {
					c.clear()
				} else {
					for i := n - 1; i >= 0; i-- {
						c.del(i)
					}
				}
				if c.size() != 0 {
					bad.Store(fmt.Sprintf("goroutine %d: private container holds %d entries after removing everything", g, c.size()))
					return
				}
				atomic.AddInt64(&calls, int64(3*n+3))
			}
		}(g)
	}
	close(start)
	wg.Wait()
	cm := map[string]int64{"containers_constructed": atomic.LoadInt64(&made), "set": atomic.LoadInt64(&calls)}
	if b := bad.Load(); b != nil {
		return b.(string), cm
	}
	return "", cm
}

func runParRound(p parProgram) (string, map[string]int64) {
	if p.Profile == "multi" {
		return runMulti(p)
	}
	var evs int64
	c := buildRC(p, &evs)
	if p.Profile == "shrinkedge" {
		// grow, then drain down to the toggled keys plus a few that stay: the table keeps the length whose shrink
		// threshold lies inside the range the entry count will now move in
		n := p.Fill + p.Keys + p.Extra
		for i := 0; i < n; i++ {
			c.set(i, newPayload(uint64(i)), cache.NoExpiration)
		}
		for i := n - 1; i >= p.Keys+p.Extra; i-- {
			c.del(i)
		}
	}
	var wg sync.WaitGroup
	var bad atomic.Value
	counts := make([]int64, 12)
	w := profW[p.Profile]
	tot := 0
	for _, x := range w {
		tot += x
	}
	ttls := []time.Duration{cache.NoExpiration, cache.DefaultExpiration, time.Millisecond, 50 * time.Microsecond, time.Second}
	start := make(chan struct{})
	for g := 0; g < p.G; g++ {
		wg.Add(1)
		go func(g int) {
			defer wg.Done()
			defer func() {
				if r := recover(); r != nil {
					bad.Store(fmt.Sprintf("goroutine %d panicked: %v", g, r))
				}
			}()
			r := &prng{s: p.Seed + uint64(g)*0x1234567}
			check := func(pl *payload, ok bool, what string) {
				if ok && pl != nil && !pl.ok() {
					bad.Store(fmt.Sprintf("%s returned a payload whose initialisation is not fully visible: %+v", what, *pl))
				}
			}
			<-start
			for i := 0; i < p.Ops; i++ {
				x := int(r.next() % uint64(tot))
				op := 0
				for op = 0; op < 12; op++ {
					if x < w[op] {
						break
					}
					x -= w[op]
				}
				k := int(r.next() % uint64(p.Keys))
				d := ttls[r.next()%uint64(len(ttls))]
				if p.Profile == "shrinkedge" {
					d = cache.NoExpiration
				}
				atomic.AddInt64(&counts[op], 1)
				switch op {
				case 0:
					c.set(k, newPayload(r.next()), d)
				case 1:
					pl, ok := c.get(k)
					check(pl, ok, "Get/Load")
				case 2:
					c.del(k)
				case 3:
					pl, _ := c.getOrSet(k, newPayload(r.next()), d)
					check(pl, true, "GetOrSet/LoadOrStore")
				case 4:
					pl, ok := c.getAndSet(k, newPayload(r.next()), d)
					check(pl, ok, "GetAndSet/LoadAndStore")
				case 5:
					pl, _ := c.getOrCompute(k, func() *payload { return newPayload(r.next()) }, d)
					check(pl, true, "GetOrCompute/LoadOrCompute")
				case 6:
					pl, ok := c.compute(k, func(old *payload, loaded bool) (*payload, bool) {
						if loaded && old != nil && !old.ok() {
							bad.Store("Compute was handed a torn payload")
						}
						return newPayload(r.next()), r.next()%4 == 0
					}, d)
					check(pl, ok, "Compute")
				case 7:
					pl, ok := c.getAndDel(k)
					check(pl, ok, "GetAndDelete/LoadAndDelete")
				case 8:
					n := 0
					c.rng(func(_ int, pl *payload) bool {
						check(pl, true, "Range")
						n++
						return n < 500
					})
				case 9:
					c.clear()
				case 10:
					_ = c.size()
				case 11:
					c.settings(int(r.next() % 1000))
				}
			}
		}(g)
	}
	close(start)
	wg.Wait()
	names := []string{"set", "get", "delete", "getOrSet", "getAndSet", "getOrCompute", "compute", "getAndDelete", "range", "clear", "size", "settings"}
	cm := map[string]int64{}
	for i, n := range names {
		cm[n] = counts[i]
	}
	cm["evicted_callbacks"] = atomic.LoadInt64(&evs)
	if b := bad.Load(); b != nil {
		return b.(string), cm
	}
	return "", cm
}

func TestC14(t *testing.T) {
	n := 10
	if v, err := strconv.Atoi(os.Getenv("VERIF_C14_PROGRAMS")); err == nil && v > 0 {
		n = v
	}
	base, _ := strconv.Atoi(os.Getenv("VERIF_CASE_SEED"))
	if in := os.Getenv("VERIF_REPLAY_IN"); in != "" {
		return
	}
	for i := 0; i < n; i++ {
		p := parGen.Example(base*100003 + i)
		pj, _ := json.Marshal(p)
		var errText string
		var cm map[string]int64
		ok := t.Run(fmt.Sprintf("prog%d", i), func(t *testing.T) {
			errText, cm = runPar(p)
			if errText != "" {
				t.Errorf("VIOLATION payload integrity: %s\nprogram: %s", errText, pj)
			}
		})
		stats.Inc("programs")
		stats.Inc("cases")
		stats.Inc("programs_profile_" + p.Profile)
		stats.Inc("programs_container_" + p.Container)
		stats.Add("calls_total", int64(p.G*p.Ops))
		for k, v := range cm {
			stats.Add("calls_"+k, v)
		}
		if p.G >= 2 && (p.Keys <= 400 || p.Profile == "bigtable" || p.Profile == "multi") {
			stats.NonTrivial(stats.Hash64(string(pj)))
		}
		stats.Sample(map[string]interface{}{"program": p, "calls": cm})
		if !ok {
			detail := errText
			kind := "payload"
			if detail == "" {
				kind = "race"
				detail = "the Go race detector reported a data race during this program (report in the shard output)"
			}
			writeReplayProg("C14", kind, detail, pj)
			t.Fatalf("VIOLATION property=C14 %s: %s program=%s", kind, detail, pj)
		}
	}
}

func writeReplayProg(prop, kind, detail string, prog []byte) {
	p := os.Getenv("VERIF_REPLAY_OUT")
	if p == "" {
		return
	}
	v := map[string]interface{}{"property": prop, "kind": kind, "descriptor": kind, "detail": detail, "engine": "E3-C14", "program": json.RawMessage(prog)}
	b, _ := json.MarshalIndent(v, "", " ")
	_ = os.WriteFile(p, b, 0o644)
}

// TestReplay re-runs a stored parallel program up to 50 times.
func TestReplay(t *testing.T) {
	in := os.Getenv("VERIF_REPLAY_IN")
	if in == "" {
		t.Skip("no VERIF_REPLAY_IN")
	}
	b, err := os.ReadFile(in)
	if err != nil {
		t.Fatal(err)
	}
	var v struct {
		Engine  string     `json:"engine"`
		Program parProgram `json:"program"`
	}
	if err := json.Unmarshal(b, &v); err != nil {
		t.Fatal(err)
	}
	if v.Engine != "E3-C14" {
		t.Skipf("engine %s: re-run the check with the recorded rapid seed instead", v.Engine)
	}
	for i := 0; i < 50; i++ {
		ok := t.Run(fmt.Sprintf("rerun%d", i), func(t *testing.T) {
			if e, _ := runPar(v.Program); e != "" {
				t.Errorf("payload integrity: %s", e)
			}
		})
		if !ok {
			t.Fatalf("REPRODUCED on re-run %d", i)
		}
	}
}
