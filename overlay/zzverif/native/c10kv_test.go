package native

import (
	"fmt"
	"strings"
	"testing"

	"github.com/fufuok/cache"
	"github.com/fufuok/cache/internal/xsync"
	"github.com/fufuok/cache/zzverif/stats"
	"pgregory.net/rapid"
)

// C10, part kv: the VALUE type is a dimension of its own. MapOf/CacheOf allocate one entry object per pair; how
// big that object is, whether it contains pointers and how the allocator aligns it depends on K and V together
// (a MapOf[uint16,uint16] entry is a 4-byte pointer-free object from the tiny allocator, a MapOf[int,[5]int64]
// entry spans a cache line). Every pair type below runs the same generated call sequences against a builtin
// map[K]V: stores of hundreds to thousands of pairs (so that resizes and every alignment class occur), overwrites,
// point lookups of present and absent keys, LoadOrStore / LoadAndStore / LoadAndDelete / Compute, Range as a set,
// Size.

type kvOps[K comparable, V comparable] interface {
	Load(K) (V, bool)
	Store(K, V)
	LoadOrStore(K, V) (V, bool)
	LoadAndStore(K, V) (V, bool)
	LoadAndDelete(K) (V, bool)
	Delete(K)
	ComputeStore(K, V) (V, bool)
	ComputeDelete(K)
	Range(func(K, V) bool)
	Size() int
}

type kvMapOf[K comparable, V comparable] struct{ m cache.MapOf[K, V] }

func (a kvMapOf[K, V]) Load(k K) (V, bool)              { return a.m.Load(k) }
func (a kvMapOf[K, V]) Store(k K, v V)                  { a.m.Store(k, v) }
func (a kvMapOf[K, V]) LoadOrStore(k K, v V) (V, bool)  { return a.m.LoadOrStore(k, v) }
func (a kvMapOf[K, V]) LoadAndStore(k K, v V) (V, bool) { return a.m.LoadAndStore(k, v) }
func (a kvMapOf[K, V]) LoadAndDelete(k K) (V, bool)     { return a.m.LoadAndDelete(k) }
func (a kvMapOf[K, V]) Delete(k K)                      { a.m.Delete(k) }
func (a kvMapOf[K, V]) ComputeStore(k K, v V) (V, bool) {
	return a.m.Compute(k, func(V, bool) (V, bool) { return v, false })
}
func (a kvMapOf[K, V]) ComputeDelete(k K) {
	a.m.Compute(k, func(old V, _ bool) (V, bool) { return old, true })
}
func (a kvMapOf[K, V]) Range(f func(K, V) bool) { a.m.Range(f) }
func (a kvMapOf[K, V]) Size() int               { return a.m.Size() }

type kvCacheOf[K comparable, V comparable] struct{ c cache.CacheOf[K, V] }

func (a kvCacheOf[K, V]) Load(k K) (V, bool)             { return a.c.Get(k) }
func (a kvCacheOf[K, V]) Store(k K, v V)                 { a.c.SetForever(k, v) }
func (a kvCacheOf[K, V]) LoadOrStore(k K, v V) (V, bool) { return a.c.GetOrSet(k, v, cache.NoExpiration) }
func (a kvCacheOf[K, V]) LoadAndStore(k K, v V) (V, bool) {
	return a.c.GetAndSet(k, v, cache.NoExpiration)
}
func (a kvCacheOf[K, V]) LoadAndDelete(k K) (V, bool) { return a.c.GetAndDelete(k) }
func (a kvCacheOf[K, V]) Delete(k K)                  { a.c.Delete(k) }
func (a kvCacheOf[K, V]) ComputeStore(k K, v V) (V, bool) {
	return a.c.Compute(k, func(V, bool) (V, bool) { return v, false }, cache.NoExpiration)
}
func (a kvCacheOf[K, V]) ComputeDelete(k K) {
	a.c.Compute(k, func(old V, _ bool) (V, bool) { return old, true }, cache.NoExpiration)
}
func (a kvCacheOf[K, V]) Range(f func(K, V) bool) { a.c.Range(f) }
func (a kvCacheOf[K, V]) Size() int               { return a.c.Count() }

func irange(rt *rapid.T, lo, hi int, label string) int { return lo + uniform(rt, hi-lo+1, label) }

// wide is a uniform integer in [0,n) for n up to a million (two 10-bit draws).
func wide(rt *rapid.T, n int, label string) int {
	if n <= 1024 {
		return uniform(rt, n, label)
	}
	return (uniform(rt, 1024, label+"Hi")*1024 + uniform(rt, 1024, label+"Lo")) % n
}

// runKVCase: keyOf(i) must be injective on 0..nKeys-1; valOf(j) may repeat.
func runKVCase[K comparable, V comparable](rt *rapid.T, name string, nKeys int, keyOf func(int) K, valOf func(int) V) {
	var api kvOps[K, V]
	cname := ""
	cont := uniform(rt, 5, "container")
	if p := safe(func() {
		switch cont {
		case 0:
			api, cname = kvMapOf[K, V]{cache.NewMapOf[K, V]()}, "MapOf"
		case 1:
			api, cname = kvMapOf[K, V]{cache.NewMapOfPresized[K, V](4096)}, "MapOf(presized 4096)"
		case 2:
			api, cname = kvMapOf[K, V]{xsync.NewMapOfWithHasher[K, V](func(K, uint64) uint64 { return 7 })}, "MapOf(constant hasher)"
		case 3:
			api, cname = kvCacheOf[K, V]{cache.NewOf[K, V](cache.WithCleanupIntervalOf[K, V](0))}, "CacheOf"
		default:
			api, cname = kvCacheOf[K, V]{cache.NewOf[K, V](cache.WithMinCapacityOf[K, V](2000))}, "CacheOf(min capacity 2000)"
		}
	}); p != "" {
		failC10(rt, c10Fail{Type: name, Container: "constructor", Detail: "constructor panicked: " + p})
	}
	ref := map[K]V{}
	var trace []string
	note := func(format string, a ...interface{}) {
		if len(trace) < 60 {
			trace = append(trace, fmt.Sprintf(format, a...))
		}
	}
	bad := func(format string, a ...interface{}) {
		failC10(rt, c10Fail{Type: name, Container: cname, Trace: trace, Detail: fmt.Sprintf(format, a...)})
	}
	span := nKeys
	if cont == 2 && span > 300 {
		span = 300 // one chain: keep the quadratic cost bounded
	}
	vi := 0
	nextVal := func() V { vi++; return valOf(vi) }
	bulk := 0
	phases := irange(rt, 2, 5, "phases")
	for ph := 0; ph < phases; ph++ {
		switch kind := uniform(rt, 6, "phase"); kind {
		case 0, 1: // bulk store of a contiguous block of keys
			lo := wide(rt, span, "lo")
			n := irange(rt, 1, 1000, "n") * span / 1000
			if lo+n > span {
				n = span - lo
			}
			note("store keys #%d..#%d", lo, lo+n-1)
			for i := lo; i < lo+n; i++ {
				k, v := keyOf(i), nextVal()
				if p := safe(func() { api.Store(k, v) }); p != "" {
					bad("Store(%v) panicked: %s", k, p)
				}
				ref[k] = v
			}
			bulk += n
		case 2: // bulk delete
			lo := wide(rt, span, "lo")
			n := irange(rt, 1, 1000, "n") * span / 1000
			if lo+n > span {
				n = span - lo
			}
			note("delete keys #%d..#%d", lo, lo+n-1)
			for i := lo; i < lo+n; i++ {
				k := keyOf(i)
				if i%2 == 0 {
					gv, gok := api.LoadAndDelete(k)
					wv, wok := ref[k]
					if gok != wok || (gok && gv != wv) {
						bad("LoadAndDelete(%v) = (%v,%v), builtin map says (%v,%v)", k, gv, gok, wv, wok)
					}
				} else if i%7 == 1 {
					api.ComputeDelete(k)
				} else {
					api.Delete(k)
				}
				delete(ref, k)
			}
		default: // single calls
			for j, n := 0, irange(rt, 5, 60, "calls"); j < n; j++ {
				i := wide(rt, span, "key")
				k := keyOf(i)
				wv, wok := ref[k]
				switch uniform(rt, 5, "call") {
				case 0:
					gv, gok := api.Load(k)
					note("Load(#%d)", i)
					if gok != wok || (gok && gv != wv) {
						bad("Load(%v) = (%v,%v), builtin map says (%v,%v)", k, gv, gok, wv, wok)
					}
				case 1:
					v := nextVal()
					gv, gok := api.LoadOrStore(k, v)
					note("LoadOrStore(#%d)", i)
					if !wok {
						ref[k], wv = v, v
					}
					if gok != wok || gv != wv {
						bad("LoadOrStore(%v,%v) = (%v,%v), builtin map says (%v,%v)", k, v, gv, gok, wv, wok)
					}
				case 2:
					v := nextVal()
					gv, gok := api.LoadAndStore(k, v)
					note("LoadAndStore(#%d)", i)
					ref[k] = v
					if gok != wok || (gok && gv != wv) {
						bad("LoadAndStore(%v,%v) = (%v,%v), builtin map says (%v,%v)", k, v, gv, gok, wv, wok)
					}
				case 3:
					v := nextVal()
					gv, gok := api.ComputeStore(k, v)
					note("Compute(#%d, store)", i)
					ref[k] = v
					if !gok || gv != v {
						bad("Compute(%v, store %v) = (%v,%v)", k, v, gv, gok)
					}
				default:
					api.Delete(k)
					note("Delete(#%d)", i)
					delete(ref, k)
				}
			}
		}
		// checkpoint: every key of the span, Size, Range as a set
		for i := 0; i < span; i++ {
			k := keyOf(i)
			gv, gok := api.Load(k)
			wv, wok := ref[k]
			if gok != wok || (gok && gv != wv) {
				bad("after phase %d: Load(%v) [key #%d] = (%v,%v), builtin map says (%v,%v)", ph+1, k, i, gv, gok, wv, wok)
			}
		}
		if n := api.Size(); n != len(ref) {
			bad("after phase %d: Size/Count = %d, builtin map holds %d", ph+1, n, len(ref))
		}
		seen := map[K]bool{}
		var rerr string
		api.Range(func(k K, v V) bool {
			if seen[k] {
				rerr = fmt.Sprintf("Range visited %v twice", k)
				return false
			}
			seen[k] = true
			if wv, ok := ref[k]; !ok || wv != v {
				rerr = fmt.Sprintf("Range visited (%v,%v), builtin map says (%v,%v)", k, v, wv, ok)
				return false
			}
			return true
		})
		if rerr == "" && len(seen) != len(ref) {
			rerr = fmt.Sprintf("Range visited %d pairs, builtin map holds %d", len(seen), len(ref))
		}
		if rerr != "" {
			bad("after phase %d: %s", ph+1, rerr)
		}
	}
	stats.Inc("cases")
	stats.Inc("kv_cases_type_" + name)
	stats.Inc("kv_cases_container_" + cname)
	if bulk >= 200 {
		stats.Inc("kv_cases_with_200_or_more_pairs_stored")
		stats.NonTrivial(stats.Hash64(name, cname, strings.Join(trace, ";")))
	}
	stats.Sample(map[string]interface{}{"pair_type": name, "container": cname, "calls": trace})
}

type twoBytes struct{ A, B uint8 }

func TestC10KV(t *testing.T) {
	run := func(name string, f func(rt *rapid.T)) {
		t.Run(name, func(t *testing.T) { rapid.Check(t, f) })
	}
	cells := make([]int, 64)
	run("uint16-uint16", func(rt *rapid.T) {
		runKVCase(rt, "uint16->uint16", 4096, func(i int) uint16 { return uint16(i * 13) }, func(j int) uint16 { return uint16(j) })
	})
	run("uint8-uint8", func(rt *rapid.T) {
		runKVCase(rt, "uint8->uint8", 256, func(i int) uint8 { return uint8(i) }, func(j int) uint8 { return uint8(j) })
	})
	run("int16-bool", func(rt *rapid.T) {
		runKVCase(rt, "int16->bool", 4096, func(i int) int16 { return int16(i - 2048) }, func(j int) bool { return j%3 == 0 })
	})
	run("uint8-emptystruct", func(rt *rapid.T) {
		runKVCase(rt, "uint8->struct{}", 256, func(i int) uint8 { return uint8(i) }, func(int) struct{} { return struct{}{} })
	})
	run("twobytes-uint8", func(rt *rapid.T) {
		runKVCase(rt, "struct{uint8,uint8}->uint8", 3000, func(i int) twoBytes { return twoBytes{uint8(i), uint8(i >> 8)} }, func(j int) uint8 { return uint8(j) })
	})
	run("uint16-3bytes", func(rt *rapid.T) {
		runKVCase(rt, "uint16->[3]uint8", 3000, func(i int) uint16 { return uint16(i) }, func(j int) [3]uint8 { return [3]uint8{uint8(j), uint8(j >> 8), 7} })
	})
	run("int32-int32", func(rt *rapid.T) {
		runKVCase(rt, "int32->int32", 4096, func(i int) int32 { return int32(i * 7919) }, func(j int) int32 { return int32(-j) })
	})
	run("uint32-float32", func(rt *rapid.T) {
		runKVCase(rt, "uint32->float32", 3000, func(i int) uint32 { return uint32(i) << 8 }, func(j int) float32 { return float32(j) / 4 })
	})
	run("int-pointer", func(rt *rapid.T) {
		runKVCase(rt, "int->*int", 3000, func(i int) int { return i }, func(j int) *int { return &cells[j%len(cells)] })
	})
	run("string-string", func(rt *rapid.T) {
		runKVCase(rt, "string->string", 3000, func(i int) string { return fmt.Sprintf("key-%d", i) }, func(j int) string { return strings.Repeat("v", j%5) + fmt.Sprint(j) })
	})
	run("string-bool", func(rt *rapid.T) {
		runKVCase(rt, "string->bool", 3000, func(i int) string { return fmt.Sprint(i) }, func(j int) bool { return j%2 == 0 })
	})
	run("int-bigarray", func(rt *rapid.T) {
		runKVCase(rt, "int->[5]int64", 3000, func(i int) int { return i * 31 }, func(j int) [5]int64 { return [5]int64{int64(j), 1, 2, 3, int64(-j)} })
	})
	run("int64-any", func(rt *rapid.T) {
		runKVCase(rt, "int64->any", 3000, func(i int) int64 { return int64(i) << 20 }, func(j int) interface{} {
			switch j % 4 {
			case 0:
				return nil
			case 1:
				return j
			case 2:
				return fmt.Sprint(j)
			}
			return uint8(j)
		})
	})
	run("bool-uint8", func(rt *rapid.T) {
		runKVCase(rt, "bool->uint8", 2, func(i int) bool { return i == 1 }, func(j int) uint8 { return uint8(j) })
	})
}
