package native

import (
	"encoding/json"
	"fmt"
	"os"
	"runtime"
	"sort"
	"strconv"
	"sync"
	"sync/atomic"
	"testing"
	"time"

	cache "github.com/fufuok/cache"
	"github.com/fufuok/cache/zzverif/stats"
	"pgregory.net/rapid"
)

// C15: the janitor cleans up on its own, only when configured, and dies with
// the cache. Real time and the real garbage collector: deadlines are > 100x the
// latencies measured in this sandbox; a configuration that misses a deadline is
// re-run once in isolation and only a repeated miss is a violation.

type c15Cfg struct {
	Of       bool  `json:"generic"`    // CacheOf[string,int] instead of Cache
	Ctor     int   `json:"ctor"`       // 0 New(options) 1 NewDefault
	Interval int64 `json:"interval_ms"` // <= 0: no janitor
	Caches   int   `json:"caches"`
	Expiring int   `json:"expiring_entries"`
	Forever  int   `json:"forever_entries"`
	CB       bool  `json:"callback"`
	Waves    int   `json:"waves"`          // further waves of expiring entries stored while the janitor is (or was) at work
	Ballast  int   `json:"ballast_entries"` // never-expiring entries in cache 0 (stretches every sweep)
	Gap      int   `json:"wave_gap_us"`    // pause before each further wave, microseconds
	Swap     int   `json:"callback_swap"`  // 0 none; 1 SetEvictedCallback(another) after construction; 2 SetEvictedCallback(nil)
	SubMs    int64 `json:"interval_us,omitempty"` // > 0: the cleanup interval is this many MICROSECONDS (Interval is 1 then, for the deadlines)
	DropPart bool  `json:"drop_younger_half_first"` // the younger half of the caches is dropped (and must be released) while the older half is still in use
	Disturb  bool  `json:"slow_callback_once"` // the first evicted callback takes max(40 intervals, 300ms): one sweep overruns; the pace afterwards is measured
}

var c15Gen = rapid.Custom(func(t *rapid.T) c15Cfg {
	c := c15Cfg{}
	c.Of = rapid.Bool().Draw(t, "generic")
	c.Ctor = uniform(t, 2, "ctor")
	// 60000: a one-minute interval - nothing can be cleaned within a test, but such a cache must still die with
	// its last reference (a janitor that looks at its stop signal only when it ticks would linger for a minute)
	c.Interval = []int64{-5, 0, 2, 3, 5, 10, 20, 60000}[uniform(t, 8, "interval")]
	c.Caches = []int{1, 1, 2, 5, 20, 60}[uniform(t, 6, "caches")]
	c.Expiring = []int{0, 1, 7, 50}[uniform(t, 4, "expiring")]
	c.Forever = []int{0, 3, 50}[uniform(t, 3, "forever")]
	c.CB = rapid.Bool().Draw(t, "callback")
	c.Waves = []int{1, 3, 4, 6}[uniform(t, 4, "waves")]
	c.Ballast = []int{0, 50000, 150000}[uniform(t, 3, "ballast")]
	c.Gap = []int{0, 0, 0, 300, 2500, 15000}[uniform(t, 6, "gap")]
	c.Swap = []int{0, 0, 1, 2}[uniform(t, 4, "swap")]
	c.Disturb = uniform(t, 3, "disturb") == 0
	c.DropPart = rapid.Bool().Draw(t, "dropPart")
	if c.Interval > 0 && c.Interval < 1000 && uniform(t, 5, "subMillisecond") == 0 {
		// intervals below a millisecond are positive intervals like any other
		c.Interval, c.SubMs = 1, []int64{50, 200, 499, 700}[uniform(t, 4, "intervalUS")]
	}
	return c
})

type ledger struct {
	mu   sync.Mutex
	m    map[string]int
	slow int64 // nanoseconds the next callback takes (once)
}

func (l *ledger) add(k string) {
	if d := atomic.SwapInt64(&l.slow, 0); d > 0 {
		time.Sleep(time.Duration(d))
	}
	l.mu.Lock()
	l.m[k]++
	l.mu.Unlock()
}

func (l *ledger) count() int {
	l.mu.Lock()
	defer l.mu.Unlock()
	return len(l.m)
}

// checkLedgers: every expired key exactly once in the callback in force when it was removed
// (effective; nil = none installed), nothing anywhere else.
func checkLedgers(cfg c15Cfg, led, led2, effective *ledger, expired map[string]bool, what string) string {
	if effective != nil {
		t1 := time.Now()
		for effective.count() < len(expired) && time.Since(t1) < 2*time.Second {
			time.Sleep(time.Millisecond) // callbacks are fired after the removal: give them a moment
		}
	}
	var problems []string
	for _, l := range []*ledger{led, led2} {
		name := "the callback given at construction"
		if l == led2 {
			name = "the callback installed later with SetEvictedCallback"
		}
		l.mu.Lock()
		if l == effective {
			for k := range expired {
				if l.m[k] != 1 {
					problems = append(problems, fmt.Sprintf("%s fired %d times in %s (the one in force)", k, l.m[k], name))
				}
			}
			for k, n := range l.m {
				if !expired[k] {
					problems = append(problems, fmt.Sprintf("%s (never expiring) fired %d times", k, n))
				}
			}
		} else if len(l.m) > 0 {
			problems = append(problems, fmt.Sprintf("%d callbacks went to %s, which was not in force when the entries were removed", len(l.m), name))
		}
		l.mu.Unlock()
	}
	if len(problems) > 0 {
		sort.Strings(problems)
		if len(problems) > 6 {
			problems = problems[:6]
		}
		return fmt.Sprintf("%s but the evicted callback ledger is wrong (swap mode %d): %v", what, cfg.Swap, problems)
	}
	return ""
}

type anyCache interface {
	Set(k string, ttl time.Duration)
	Count() int
	DeleteExpired()
	Swap(l *ledger) // nil: remove the callback
}

// every entry of a cache holds that cache's sentinel: when the cache has been dropped (and only then,
// as long as never-expiring entries exist) the sentinel must become collectable
type c15Cache struct {
	c cache.Cache
	s *sentinel
}
type c15CacheOf struct {
	c cache.CacheOf[string, *sentinel]
	s *sentinel
}

func (c c15Cache) Set(k string, ttl time.Duration)   { c.c.Set(k, c.s, ttl) }
func (c c15Cache) Count() int                        { return c.c.Count() }
func (c c15Cache) DeleteExpired()                    { c.c.DeleteExpired() }
func (c c15Cache) Swap(l *ledger) {
	if l == nil {
		c.c.SetEvictedCallback(nil)
		return
	}
	c.c.SetEvictedCallback(func(k string, v interface{}) { l.add(k) })
}
func (c c15CacheOf) Swap(l *ledger) {
	if l == nil {
		c.c.SetEvictedCallback(nil)
		return
	}
	c.c.SetEvictedCallback(func(k string, v *sentinel) { l.add(k) })
}
func (c c15CacheOf) Set(k string, ttl time.Duration) { c.c.Set(k, c.s, ttl) }
func (c c15CacheOf) Count() int                      { return c.c.Count() }
func (c c15CacheOf) DeleteExpired()                  { c.c.DeleteExpired() }

func (cfg c15Cfg) iv() time.Duration {
	if cfg.SubMs > 0 {
		return time.Duration(cfg.SubMs) * time.Microsecond
	}
	return time.Duration(cfg.Interval) * time.Millisecond
}

func buildC15(cfg c15Cfg, idx int, l *ledger, sent *sentinel) anyCache {
	iv := cfg.iv()
	pre := fmt.Sprintf("c%d/", idx)
	_ = pre
	if cfg.Of {
		cb := func(k string, v *sentinel) { l.add(k) }
		if cfg.Ctor == 1 {
			if cfg.CB {
				return c15CacheOf{cache.NewOfDefault[string, *sentinel](time.Hour, iv, cb), sent}
			}
			return c15CacheOf{cache.NewOfDefault[string, *sentinel](time.Hour, iv), sent}
		}
		opts := []cache.OptionOf[string, *sentinel]{cache.WithCleanupIntervalOf[string, *sentinel](iv)}
		if cfg.CB {
			opts = append(opts, cache.WithEvictedCallbackOf[string, *sentinel](cb))
		}
		return c15CacheOf{cache.NewOf[string, *sentinel](opts...), sent}
	}
	cb := func(k string, v interface{}) { l.add(k) }
	if cfg.Ctor == 1 {
		if cfg.CB {
			return c15Cache{cache.NewDefault(time.Hour, iv, cb), sent}
		}
		return c15Cache{cache.NewDefault(time.Hour, iv), sent}
	}
	opts := []cache.Option{cache.WithCleanupInterval(iv)}
	if cfg.CB {
		opts = append(opts, cache.WithEvictedCallback(cb))
	}
	return c15Cache{cache.New(opts...), sent}
}

type sentinel struct{ buf [64]byte }

// settleGoroutines waits until the number of goroutines is stable.
func settleGoroutines() int {
	prev := runtime.NumGoroutine()
	for i := 0; i < 50; i++ {
		runtime.GC()
		time.Sleep(2 * time.Millisecond)
		n := runtime.NumGoroutine()
		if n == prev && i >= 3 {
			return n
		}
		prev = n
	}
	return prev
}

// oneC15 runs one configuration. Returns ("", "") when everything held; (violation, "") for a
// definite violation (not time dependent); ("", miss) when a deadline was missed.
func oneC15(cfg c15Cfg) (viol string, miss string) {
	base := settleGoroutines()
	led := &ledger{m: map[string]int{}}
	caches := make([]anyCache, cfg.Caches)
	var releasedN int32 // sentinels (one per cache, held by that cache's entries) that have been finalized
	for i := range caches {
		s := &sentinel{}
		runtime.SetFinalizer(s, func(*sentinel) { atomic.AddInt32(&releasedN, 1) })
		caches[i] = buildC15(cfg, i, led, s)
	}
	// the callback in force may be replaced at run time: whoever removes entries later (janitor included)
	// must use the one in force then
	effective := led
	if !cfg.CB {
		effective = nil
	}
	led2 := &ledger{m: map[string]int{}}
	switch cfg.Swap {
	case 1:
		for _, c := range caches {
			c.Swap(led2)
		}
		effective = led2
	case 2:
		for _, c := range caches {
			c.Swap(nil)
		}
		effective = nil
	}
	if cfg.Swap != 0 && cfg.Interval > 0 && cfg.Interval < 1000 {
		// a janitor pass already under way when the callback was replaced may still deliver to the old one: let it finish
		time.Sleep(time.Duration(2*cfg.Interval+1) * time.Millisecond)
	}
	// a sentinel stored in the first cache shows whether contents are released later
	var released int32
	var aux interface{} // a further cache of the same kind and interval holding the sentinel
	func() {
		s := &sentinel{}
		runtime.SetFinalizer(s, func(*sentinel) { atomic.StoreInt32(&released, 1) })
		iv := cfg.iv()
		if cfg.Of {
			a := cache.NewOf[string, *sentinel](cache.WithCleanupIntervalOf[string, *sentinel](iv))
			a.SetForever("sentinel", s)
			aux = a
		} else {
			a := cache.New(cache.WithCleanupInterval(iv))
			a.SetForever("sentinel", s)
			aux = a
		}
	}()
	expired := map[string]bool{}
	if cfg.Disturb && effective != nil && cfg.Interval > 0 {
		slow := 40 * time.Duration(cfg.Interval) * time.Millisecond
		if slow < 300*time.Millisecond {
			slow = 300 * time.Millisecond
		}
		atomic.StoreInt64(&effective.slow, int64(slow))
	}
	for i, c := range caches[:cfg.Caches] {
		for j := 0; j < cfg.Expiring; j++ {
			k := fmt.Sprintf("c%d/e%d", i, j)
			c.Set(k, time.Millisecond)
			expired[k] = true
		}
		for j := 0; j < cfg.Forever; j++ {
			c.Set(fmt.Sprintf("c%d/f%d", i, j), cache.NoExpiration)
		}
	}
	ballast := 0
	if cfg.Interval > 0 {
		ballast = cfg.Ballast
		for j := 0; j < ballast; j++ {
			caches[0].Set(fmt.Sprintf("b%d", j), cache.NoExpiration)
		}
	}
	want := func(i int) int { // entries cache i must hold once everything expiring is gone
		if i == 0 {
			return cfg.Forever + ballast
		}
		return cfg.Forever
	}
	total := cfg.Expiring + cfg.Forever
	if cfg.Interval <= 0 {
		time.Sleep(3 * time.Millisecond) // all expiring entries are past their instant now
	}
	long := cfg.Interval >= 1000 // nothing can be swept within this test: only construction and the drop are observed
	if long {
		stats.Inc("configs_with_a_one_minute_interval")
	}
	if cfg.Interval > 0 && !long {
		// (i) cleaned without any user call on the keys, within max(200 intervals, 5 s)
		deadline := time.Duration(cfg.Interval) * 200 * time.Millisecond
		if deadline < 5*time.Second {
			deadline = 5 * time.Second
		}
		t0 := time.Now()
		waitClean := func(wave int) string {
			tw := time.Now()
			for {
				done := true
				for i, c := range caches[:cfg.Caches] {
					if c.Count() != want(i) {
						done = false
					}
				}
				if done {
					return ""
				}
				if time.Since(tw) > deadline {
					return fmt.Sprintf("interval %dms, wave %d of %d: Count() did not return to the never-expiring population within %v without user calls (janitor not running any more?)", cfg.Interval, wave, cfg.Waves, deadline)
				}
				time.Sleep(200 * time.Microsecond)
			}
		}
		outstanding := cfg.Expiring // expiring entries stored per cache and not yet known to be gone
		for w := 2; w <= cfg.Waves; w++ {
			if cfg.Gap == 0 {
				// reactive: store the next wave the moment a pass is seen at work (first removal observed),
				// i.e. while the janitor is in the middle of a sweep
				tw := time.Now()
				for caches[0].Count() >= want(0)+outstanding && outstanding > 0 && time.Since(tw) < deadline {
					time.Sleep(20 * time.Microsecond)
				}
				if n := caches[0].Count() - want(0); n >= 0 {
					outstanding = n // what is really still there
				}
			} else {
				if m := waitClean(w - 1); m != "" {
					return "", m
				}
				outstanding = 0
				time.Sleep(time.Duration(cfg.Gap) * time.Microsecond)
			}
			for i, c := range caches[:cfg.Caches] {
				k := fmt.Sprintf("c%d/w%d", i, w)
				c.Set(k, 300*time.Microsecond)
				expired[k] = true
			}
			outstanding++
		}
		if m := waitClean(cfg.Waves); m != "" {
			return "", m
		}
		stats.Max("max_autoclean_latency_ms", time.Since(t0).Milliseconds())
		if msg := checkLedgers(cfg, led, led2, effective, expired, "the janitor removed the expired entries"); msg != "" {
			return msg, ""
		}
		// (i') pace after the history above (which may include one sweep that overran because of a slow callback):
		// an entry that expires now must still go within a number of intervals that does not depend on that history.
		// Each probe is stored right after the previous one was seen removed, i.e. just after a sweep.
		pace := 25 * time.Duration(cfg.Interval) * time.Millisecond
		if pace < 250*time.Millisecond {
			pace = 250 * time.Millisecond
		}
		// disarm a slow callback that never fired (no entry expired so far): it must not delay the janitor NOW
		disturbed := effective != nil && cfg.Disturb && atomic.SwapInt64(&effective.slow, 0) == 0
		// a control ticker of this process measures how late timers are delivered right now: on a machine so
		// loaded that ITS ticks come more than 40 ms apart, a late probe says nothing about the janitor
		var maxGap int64
		stopCtl := make(chan struct{})
		ctlDone := make(chan struct{})
		go func() {
			defer close(ctlDone)
			tk := time.NewTicker(time.Millisecond)
			defer tk.Stop()
			last := time.Now()
			for {
				select {
				case <-tk.C:
					now := time.Now()
					if g := int64(now.Sub(last)); g > atomic.LoadInt64(&maxGap) {
						atomic.StoreInt64(&maxGap, g)
					}
					last = now
				case <-stopCtl:
					return
				}
			}
		}()
		stopControl := func() { close(stopCtl); <-ctlDone }
		for r := 1; r <= 3; r++ {
			for i, c := range caches[:cfg.Caches] {
				k := fmt.Sprintf("c%d/p%d", i, r)
				c.Set(k, 300*time.Microsecond)
				expired[k] = true
			}
			tp := time.Now()
			for {
				done := true
				for i, c := range caches[:cfg.Caches] {
					if c.Count() != want(i) {
						done = false
					}
				}
				if done {
					break
				}
				if time.Since(tp) > pace {
					stopControl()
					if g := time.Duration(atomic.LoadInt64(&maxGap)); g > 40*time.Millisecond {
						stats.Inc("pace_inconclusive_machine_too_loaded")
						return "", ""
					}
					return "", fmt.Sprintf("interval %dms: after the earlier waves (one sweep overran because of a slow callback: %v) an entry with TTL 300us was still physically present %v (= %d intervals) after it was stored, without user calls", cfg.Interval, disturbed, time.Since(tp).Round(time.Millisecond), int64(time.Since(tp)/time.Millisecond)/cfg.Interval)
				}
				time.Sleep(200 * time.Microsecond)
			}
			stats.Max("max_pace_latency_ms", time.Since(tp).Milliseconds())
		}
		stopControl()
		stats.Max("max_control_ticker_gap_ms", time.Duration(atomic.LoadInt64(&maxGap)).Milliseconds())
		if disturbed {
			stats.Inc("configs_with_overrun_sweep")
		}
		if msg := checkLedgers(cfg, led, led2, effective, expired, "the janitor removed the probe entries"); msg != "" {
			return msg, ""
		}
	} else if cfg.Interval <= 0 {
		// (ii) nothing is removed and nothing fires until DeleteExpired is called
		// The window is 60 ms; when constructing these caches raised the goroutine count (which by itself is NOT a
		// violation: the property speaks about removals, not goroutines) somebody may be sweeping on a period of
		// his own, so the caches are watched for 2.5 s instead.
		window := 60 * time.Millisecond
		if n := runtime.NumGoroutine(); n > base {
			time.Sleep(5 * time.Millisecond)
			if n = runtime.NumGoroutine(); n > base {
				window = 2500 * time.Millisecond
				stats.Inc("no_janitor_configs_watched_longer_because_goroutines_appeared")
			}
		}
		t0 := time.Now()
		for time.Since(t0) < window {
			for i, c := range caches[:cfg.Caches] {
				if n := c.Count(); n != total {
					return fmt.Sprintf("cleanup interval %dms (no janitor configured) but cache %d went from %d to %d entries on its own", cfg.Interval, i, total, n), ""
				}
			}
			time.Sleep(5 * time.Millisecond)
		}
		if n := led.count() + led2.count(); n != 0 {
			return fmt.Sprintf("no janitor configured, no removing call made, yet %d callbacks fired", n), ""
		}
		for i, c := range caches[:cfg.Caches] {
			c.DeleteExpired()
			if n := c.Count(); n != cfg.Forever {
				return fmt.Sprintf("after DeleteExpired cache %d holds %d entries, expected %d", i, n, cfg.Forever), ""
			}
		}
		if msg := checkLedgers(cfg, led, led2, effective, expired, "DeleteExpired removed the expired entries"); msg != "" {
			return msg, ""
		}
	}
	// (iii') drop the younger half only: what they held must be released although older caches (same kind, same
	// interval) are still alive and in use - whatever the caches share must not keep a dropped one reachable
	if cfg.DropPart && cfg.Caches >= 2 {
		keep := cfg.Caches / 2
		dropped := cfg.Caches - keep
		for i := keep; i < cfg.Caches; i++ {
			caches[i] = nil
		}
		aux = nil // the auxiliary cache was constructed last: it is the youngest of all
		tp := time.Now()
		for int(atomic.LoadInt32(&releasedN)) < dropped || atomic.LoadInt32(&released) != 1 {
			runtime.GC()
			time.Sleep(2 * time.Millisecond)
			for _, c := range caches[:keep] {
				_ = c.Count() // the survivors stay in use
			}
			if time.Since(tp) > 10*time.Second {
				return "", fmt.Sprintf("10 s after dropping the %d youngest of %d caches (interval %dms) while the others stay in use: contents released for %d of the %d dropped caches (auxiliary, the youngest: %v)", dropped, cfg.Caches, cfg.Interval, atomic.LoadInt32(&releasedN), dropped, atomic.LoadInt32(&released) == 1)
			}
		}
		stats.Inc("configs_partial_drop")
		stats.Max("max_partial_release_latency_ms", time.Since(tp).Milliseconds())
	}
	// (iii) drop everything: janitors stop, contents are released
	for i := range caches {
		caches[i] = nil
	}
	caches = nil
	runtime.KeepAlive(aux)
	aux = nil
	t0 := time.Now()
	for {
		runtime.GC()
		time.Sleep(2 * time.Millisecond)
		n := runtime.NumGoroutine()
		if n <= base && atomic.LoadInt32(&released) == 1 && int(atomic.LoadInt32(&releasedN)) == cfg.Caches {
			break
		}
		if time.Since(t0) > 10*time.Second {
			return "", fmt.Sprintf("10 s after dropping %d caches (interval %dms): %d goroutines (baseline %d), contents released: %d of %d caches (+ auxiliary %v)", cfg.Caches, cfg.Interval, n, base, atomic.LoadInt32(&releasedN), cfg.Caches, atomic.LoadInt32(&released) == 1)
		}
	}
	stats.Max("max_shutdown_latency_ms", time.Since(t0).Milliseconds())
	return "", ""
}

func TestC15(t *testing.T) {
	n := 4
	if v, err := strconv.Atoi(os.Getenv("VERIF_C15_CONFIGS")); err == nil && v > 0 {
		n = v
	}
	base, _ := strconv.Atoi(os.Getenv("VERIF_CASE_SEED"))
	for i := 0; i < n; i++ {
		cfg := c15Gen.Example(base*100003 + i)
		if f := os.Getenv("VERIF_C15_FORCE"); f != "" {
			_ = json.Unmarshal([]byte(f), &cfg) // development aid: pin a configuration
		}
		viol, miss := oneC15(cfg)
		if viol == "" && miss != "" {
			stats.Inc("deadline_missed_once")
			time.Sleep(200 * time.Millisecond)
			runtime.GC()
			viol2, miss2 := oneC15(cfg)
			if viol2 != "" {
				viol = viol2
			} else if miss2 != "" {
				viol = "deadline missed twice (second run in isolation): " + miss2
			}
		}
		stats.Inc("cases")
		if cfg.Interval > 0 {
			stats.Inc("cases_janitor_configured")
		} else {
			stats.Inc("cases_no_janitor")
		}
		if (cfg.Interval > 0 && cfg.Expiring > 0) || cfg.Caches >= 2 {
			stats.NonTrivial(stats.Hash64(fmt.Sprintf("%+v", cfg)))
		}
		stats.Sample(map[string]interface{}{"configuration": cfg})
		if viol != "" {
			writeReplay("C15", "janitor", "janitor", fmt.Sprintf("configuration %+v: %s", cfg, viol), nil)
			t.Fatalf("VIOLATION property=C15 configuration %+v: %s", cfg, viol)
		}
	}
}
