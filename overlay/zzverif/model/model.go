package model

import (
	"encoding/binary"
	"fmt"
	"math"
	"sort"
)

// Physical presence of an entry.
const (
	Absent  uint8 = iota
	Present       // physically present for sure (live, or expired and untouched since)
	Maybe         // expired and touched by a call that may or may not have cleaned it up
)

type Ent struct {
	V    int
	E    int64 // absolute expiration (UnixNano), 0 = never
	Phys uint8
	// Far: the TTL was so large that the expiration instant is not representable as UnixNano
	// (beyond year 2262). The entry must stay visible for the whole case; what GetWithExpiration /
	// GetWithTTL report for it is not pinned.
	Far bool
	// S: the clock reading the expiry was stamped from (0 = no expiry or unknown). Ticking-clock mode only:
	// a remaining lifetime can never be computed from a reading older than this one.
	S int64
}

// M is the reference model: a TTL cache over keys 0..len(Ents)-1 plus an
// aggregated block of ColdN "cold" keys that are live for the whole case and
// can only disappear together, by Clear. A Map/MapOf is the same model with
// E == 0 everywhere.
//
// Deliberate looseness (never demand more than the listed properties state):
//   - whether a read of an expired entry physically removes it is unspecified
//     (Phys = Maybe); Count must lie in [live+definite, live+definite+maybe];
//   - the value returned with ok=false by Compute is unconstrained here (it is
//     pinned differentially by C11/C12);
//   - a GetAndDelete that finds an expired entry must report absent; whether
//     it fires the evicted callback for the entry it removed is left open.
type M struct {
	// StampNow, when non-zero, is the instant new expirations are computed from (ticking-clock
	// mode: a call decides liveness with its first clock read and stamps with its last).
	StampNow         int64
	CBFlip           bool   // checker-internal: CB/CBTag are temporarily replaced for one call
	CBSave           bool   // checker-internal: the setting to restore after that call
	CBTagSave        int
	PinNow, PinStamp int64  // checker-internal: the clock reads chosen for one call
	DOvr             *int64 // default expiration this one call may have read (a default set concurrently with the call)
	Tick             bool   // ticking-clock mode
	NoClock          bool   // the call being checked read no clock: it cannot have seen a possibly-cleaned entry as live
	Now              int64
	D                int64 // default expiration as stored (raw)
	CB               bool  // an evicted callback is installed
	CBTag            int   // which one (1 = the adapter's first callback, 2 = its second); 0 = unknown/not tracked
	Ents             []Ent
	ColdN            int
	ColdOn           bool
}

func New(nkeys int, now, d int64, cb bool) *M {
	m := &M{Now: now, D: d, CB: cb, Ents: make([]Ent, nkeys)}
	if cb {
		m.CBTag = 1
	}
	return m
}

func (m *M) Clone() *M {
	c := *m
	c.Ents = append([]Ent(nil), m.Ents...)
	return &c
}

// Hash is a compact canonical encoding of the state (memoisation key).
func (m *M) Hash() string {
	b := make([]byte, 0, 16+len(m.Ents)*13)
	var tmp [8]byte
	binary.LittleEndian.PutUint64(tmp[:], uint64(m.D))
	b = append(b, tmp[:]...)
	fl := byte(0)
	if m.CB {
		fl |= 1
	}
	if m.ColdOn {
		fl |= 2
	}
	fl |= byte(m.CBTag&3) << 2 // which callback is installed is part of the state
	b = append(b, fl)
	for i := range m.Ents {
		e := &m.Ents[i]
		if e.Phys == Absent {
			b = append(b, 0)
			continue
		}
		b = append(b, e.Phys)
		binary.LittleEndian.PutUint32(tmp[:4], uint32(e.V))
		b = append(b, tmp[:4]...)
		binary.LittleEndian.PutUint64(tmp[:], uint64(e.E))
		b = append(b, tmp[:]...)
		if m.Tick {
			binary.LittleEndian.PutUint64(tmp[:], uint64(e.S))
			b = append(b, tmp[:]...)
		}
	}
	return string(b)
}

func (m *M) live(e *Ent) bool {
	if m.NoClock && e.Phys == Maybe {
		return false
	}
	return e.Phys != Absent && (e.E == 0 || m.Now <= e.E)
}
func (m *M) expired(e *Ent) bool {
	if m.NoClock && e.Phys == Maybe {
		return true
	}
	return e.Phys != Absent && e.E != 0 && m.Now > e.E
}

// Live reports whether key k is visible.
func (m *M) Live(k int) bool { return k >= 0 && k < len(m.Ents) && m.live(&m.Ents[k]) }

// ExpiredUncleaned reports whether key k may still be physically present although expired.
func (m *M) ExpiredUncleaned(k int) bool { return k >= 0 && k < len(m.Ents) && m.expired(&m.Ents[k]) }

// Exp computes the expiration instant for TTL argument d at the current time.
func (m *M) Exp(d int64) int64 {
	e, _ := m.exp2(d)
	return e
}

func (m *M) exp2(d int64) (int64, bool) {
	if d == DefaultExpiration {
		d = m.D
		if m.DOvr != nil {
			d = *m.DOvr
		}
	}
	if d > 0 {
		base := m.Now
		if m.StampNow != 0 {
			base = m.StampNow
		}
		if base > math.MaxInt64-d {
			return 0, true // not representable: effectively never within any case
		}
		return base + d, false
	}
	return 0, false
}

// At positions the model at the instants a call read from the ticking clock (no reads: unchanged).
func (m *M) At(nows []int64) {
	m.StampNow = 0
	m.NoClock = m.Tick && len(nows) == 0
	if len(nows) > 0 {
		m.Now = nows[0]
		m.StampNow = nows[len(nows)-1]
	}
}

// Counts returns (#live incl. cold, #expired definitely present, #expired maybe present). The
// sum of the first two is the number of entries that are physically present for sure.
func (m *M) Counts() (live, def, maybe int) {
	for i := range m.Ents {
		e := &m.Ents[i]
		switch {
		case e.Phys == Maybe:
			maybe++
		case m.live(e):
			live++
		case e.Phys == Present:
			def++
		}
	}
	if m.ColdOn {
		live += m.ColdN
	}
	return
}

// LiveSet returns the live entries of the explicit keys, sorted by key.
func (m *M) LiveSet() []KV {
	var out []KV
	for i := range m.Ents {
		if m.live(&m.Ents[i]) {
			out = append(out, KV{i, m.Ents[i].V})
		}
	}
	return out
}

func errf(f string, a ...interface{}) error { return fmt.Errorf(f, a...) }

func (m *M) store(k, v int, d int64) {
	e, far := m.exp2(d)
	m.Ents[k] = Ent{V: v, E: e, Phys: Present, Far: far, S: m.stampBase(e)}
}

// stampBase: the clock reading an expiry computed now is based on (0 when there is no expiry).
func (m *M) stampBase(e int64) int64 {
	if e == 0 {
		return 0
	}
	if m.StampNow != 0 {
		return m.StampNow
	}
	return m.Now
}

func (m *M) touch(e *Ent) {
	if m.expired(e) {
		e.Phys = Maybe
	}
}

// CBState is a callback setting that may have been in force during a call (installed or not, and which one).
type CBState struct {
	On  bool `json:"on"`
	Tag int  `json:"tag"`
}

// tagOK: callbacks fired during a call must all have gone to the callback in force (sequential engine).
func (m *M) tagOK(r *Res) error {
	if m.CBTag == 0 || len(r.Ev) == 0 {
		return nil
	}
	if m.CBTag == 2 && r.EvB != len(r.Ev) {
		return errf("%d of %d callbacks went to a callback that had been replaced by SetEvictedCallback", len(r.Ev)-r.EvB, len(r.Ev))
	}
	if m.CBTag == 1 && r.EvB != 0 {
		return errf("%d callbacks went to a callback other than the one in force", r.EvB)
	}
	return nil
}

func noEv(r *Res) error {
	if len(r.Ev) != 0 {
		return errf("evicted callback fired %v by a call that must never fire it", r.Ev)
	}
	return nil
}

func wantAbsent(r *Res) error {
	if r.OK {
		return errf("reported present (value %d) although the key is absent, deleted, cleared or expired", r.V)
	}
	if r.V != 0 {
		return errf("reported absent but returned non-zero value %d", r.V)
	}
	return nil
}

func wantVal(r *Res, v int, ok bool) error {
	if r.OK != ok || r.V != v {
		return errf("returned (%d,%v), expected (%d,%v)", r.V, r.OK, v, ok)
	}
	return nil
}

// Step checks the observed result r of op o against the model and applies the
// call's effect. r == nil means "outcome unknown" (a pending call): the effect
// is applied, nothing is checked. An error means the observation is impossible
// in the current state.
func (m *M) Step(o *Op, r *Res) error {
	chk := r != nil
	if !chk {
		r = &Res{}
	}
	if chk && r.Panic != "" {
		return errf("panic: %s", r.Panic)
	}
	if chk {
		if err := m.tagOK(r); err != nil {
			return err
		}
	}
	var e *Ent
	if o.Key >= 0 && o.Key < len(m.Ents) {
		e = &m.Ents[o.Key]
	}
	needKey := func() error {
		if e == nil {
			return errf("model: key %d out of range", o.Key)
		}
		return nil
	}
	switch o.K {
	case MLoad, CGet, CGetExp, CGetTTL:
		if err := needKey(); err != nil {
			return err
		}
		if chk {
			if err := noEv(r); err != nil {
				return err
			}
			if m.live(e) {
				if err := wantVal(r, e.V, true); err != nil {
					return err
				}
				switch {
				case e.Far:
					// instant beyond the representable range: reported value not pinned
				case o.K == CGetExp:
					if r.T != e.E {
						return errf("reported expiration instant %d, stored instant is %d", r.T, e.E)
					}
				case o.K == CGetTTL:
					want := NoExpiration
					if e.E != 0 {
						rd := m.Now
						if m.Tick && m.StampNow != 0 {
							// ticking clock: the remaining time is computed from one of the call's clock reads
							// (the checker tries each); the entry did not exist before the reading its expiry
							// was stamped from, so an older reading reports more than the entry ever had
							rd = m.StampNow
							if e.S != 0 && rd < e.S {
								return errf("reported TTL %d is the time remaining at clock reading %d, before the reading %d the entry's expiry was stamped from (more than the entry ever had)", r.T, rd, e.S)
							}
						}
						want = e.E - rd
					}
					if r.T != want {
						return errf("reported TTL %d, expected %d", r.T, want)
					}
				}
			} else {
				if err := wantAbsent(r); err != nil {
					return err
				}
			}
		}
		m.touch(e)
	case MStore, CSet, CSetDefault, CSetForever:
		if err := needKey(); err != nil {
			return err
		}
		if chk {
			if err := noEv(r); err != nil {
				return err
			}
		}
		m.store(o.Key, o.Val, m.ttlOf(o))
	case MLoadOrStore, CGetOrSet:
		if err := needKey(); err != nil {
			return err
		}
		if chk {
			if err := noEv(r); err != nil {
				return err
			}
		}
		if m.live(e) {
			if chk {
				if err := wantVal(r, e.V, true); err != nil {
					return err
				}
			}
		} else {
			if chk {
				if err := wantVal(r, o.Val, false); err != nil {
					return err
				}
			}
			m.store(o.Key, o.Val, m.ttlOf(o))
		}
	case MLoadAndStore, CGetAndSet:
		if err := needKey(); err != nil {
			return err
		}
		if chk {
			if err := noEv(r); err != nil {
				return err
			}
			if m.live(e) {
				if err := wantVal(r, e.V, true); err != nil {
					return err
				}
			} else if r.OK || (r.V != o.Val && r.V != 0) {
				// not loaded: the flag is pinned, the companion value is the given value (documented) or zero
				return errf("returned (%d,%v), expected (%d,false) or (0,false)", r.V, r.OK, o.Val)
			}
		}
		m.store(o.Key, o.Val, m.ttlOf(o))
	case CGetAndRefresh:
		if err := needKey(); err != nil {
			return err
		}
		if chk {
			if err := noEv(r); err != nil {
				return err
			}
		}
		if m.live(e) {
			if chk {
				if err := wantVal(r, e.V, true); err != nil {
					return err
				}
			}
			e.E, e.Far = m.exp2(o.D)
			e.S = m.stampBase(e.E)
		} else {
			if chk {
				if err := wantAbsent(r); err != nil {
					return err
				}
			}
			m.touch(e)
		}
	case MLoadOrCompute, CGetOrCompute:
		if err := needKey(); err != nil {
			return err
		}
		if chk {
			if err := noEv(r); err != nil {
				return err
			}
		}
		if m.live(e) {
			if chk {
				if len(r.Fn) != 0 {
					return errf("user function called %d time(s) although a live value exists", len(r.Fn))
				}
				if err := wantVal(r, e.V, true); err != nil {
					return err
				}
			}
		} else {
			if chk {
				if len(r.Fn) != 1 {
					return errf("user function called %d times, expected exactly once (no live value)", len(r.Fn))
				}
				if err := wantVal(r, o.Val, false); err != nil {
					return err
				}
			}
			m.store(o.Key, o.Val, m.ttlOf(o))
		}
	case MCompute, CCompute:
		if err := needKey(); err != nil {
			return err
		}
		lv := m.live(e)
		old := 0
		if lv {
			old = e.V
		}
		if chk {
			if err := noEv(r); err != nil {
				return err
			}
			if len(r.Fn) != 1 {
				return errf("Compute function called %d times, expected exactly once", len(r.Fn))
			}
			if r.Fn[0].Loaded != lv || r.Fn[0].Old != old {
				return errf("Compute function was handed (%d,%v), the key's current view is (%d,%v)", r.Fn[0].Old, r.Fn[0].Loaded, old, lv)
			}
		}
		nv, del := FnResult(o.Fn, o.Val, lv)
		if del {
			if chk && r.OK {
				return errf("Compute deleted but reported ok=true (value %d)", r.V)
			}
			if lv {
				*e = Ent{}
			} else {
				m.touch(e)
			}
		} else {
			if chk {
				if err := wantVal(r, nv, true); err != nil {
					return err
				}
			}
			m.store(o.Key, nv, m.ttlOf(o))
		}
	case MLoadAndDelete, CGetAndDelete, MDelete, CDelete:
		if err := needKey(); err != nil {
			return err
		}
		ret := o.K == MLoadAndDelete || o.K == CGetAndDelete
		switch {
		case m.live(e):
			if chk {
				if ret {
					if err := wantVal(r, e.V, true); err != nil {
						return err
					}
				}
				if err := m.wantEv(r, o.Key, e.V, true); err != nil {
					return err
				}
				if r.Probe && r.C0-r.C1 != 1 {
					return errf("removed a live entry but Count went %d -> %d", r.C0, r.C1)
				}
			}
			*e = Ent{}
		case m.expired(e):
			if chk {
				if ret {
					if err := wantAbsent(r); err != nil {
						return err
					}
				}
				// the entry may be removed physically; firing is allowed (0 or 1), with that very value
				if err := m.wantEv(r, o.Key, e.V, false); err != nil {
					return err
				}
				if r.Probe {
					d := r.C0 - r.C1
					if d < 0 || d > 1 {
						return errf("Count went %d -> %d around a single-key removal", r.C0, r.C1)
					}
					if e.Phys == Present && r.C0 <= 0 {
						return errf("Count %d although an expired-uncleaned entry is physically present", r.C0)
					}
					if !ret && m.CB && d != len(r.Ev) {
						// Delete that lowers Count fires exactly once
						return errf("Delete lowered Count by %d but fired the callback %d time(s)", d, len(r.Ev))
					}
				}
			}
			if len(r.Ev) > 0 || (r.Probe && r.C0-r.C1 == 1) {
				*e = Ent{}
			} else {
				e.Phys = Maybe
			}
		default:
			if chk {
				if ret {
					if err := wantAbsent(r); err != nil {
						return err
					}
				}
				if err := noEv(r); err != nil {
					return err
				}
				if r.Probe && r.C0 != r.C1 {
					return errf("Count went %d -> %d although the key was absent", r.C0, r.C1)
				}
			}
		}
	case CDeleteExpired:
		// sequential form (whole call at once)
		fired := map[int]int{}
		if chk {
			for _, kv := range r.Ev {
				if _, dup := fired[kv.K]; dup {
					return errf("DeleteExpired fired the callback twice for key %d", kv.K)
				}
				fired[kv.K] = kv.V
			}
		}
		nfired := 0
		for i := range m.Ents {
			en := &m.Ents[i]
			fv, f := fired[i]
			if m.expired(en) {
				if chk {
					if f {
						if !m.CB {
							return errf("callback fired for key %d although none is installed", i)
						}
						if fv != en.V {
							return errf("DeleteExpired fired (k%d,%d) but the expired entry holds %d", i, fv, en.V)
						}
						nfired++
					} else if m.CB && en.Phys == Present {
						return errf("DeleteExpired did not fire the callback for expired entry (k%d,%d) that was physically present", i, en.V)
					}
				}
				*en = Ent{}
			} else if chk && f {
				return errf("DeleteExpired fired the callback for (k%d,%d) which is not an expired entry (live=%v)", i, fv, m.live(en))
			}
		}
		if chk {
			if len(fired) != nfired {
				return errf("DeleteExpired fired callbacks for keys outside the universe: %v", r.Ev)
			}
			if r.Probe {
				live, _, _ := m.Counts()
				if r.C1 != live {
					return errf("Count is %d right after DeleteExpired, live entries: %d", r.C1, live)
				}
				if m.CB && r.C0-r.C1 != nfired {
					return errf("DeleteExpired lowered Count by %d but fired %d callbacks", r.C0-r.C1, nfired)
				}
			}
		}
	case PSweepKey:
		// One key of a DeleteExpired pass. The pass may decide by any instant between its first
		// clock read (m.Now) and its return (m.StampNow when set): an entry expired at its start
		// must go (and fire); one that expires while the pass runs may go; anything else must stay.
		if err := needKey(); err != nil {
			return err
		}
		end := m.Now
		if m.StampNow > end {
			end = m.StampNow
		}
		expStart := m.expired(e)
		expEnd := e.Phys != Absent && e.E != 0 && end > e.E
		switch {
		case expStart:
			if chk {
				if r.OK {
					if !m.CB {
						return errf("callback fired although none is installed")
					}
					if r.V != e.V {
						return errf("DeleteExpired fired (k%d,%d) but the expired entry holds %d", o.Key, r.V, e.V)
					}
				} else if m.CB && e.Phys == Present {
					return errf("DeleteExpired removed/skipped expired entry (k%d,%d) without firing", o.Key, e.V)
				}
			}
			*e = Ent{}
		case expEnd:
			if chk && r.OK {
				if !m.CB {
					return errf("callback fired although none is installed")
				}
				if r.V != e.V {
					return errf("DeleteExpired fired (k%d,%d) but the entry holds %d", o.Key, r.V, e.V)
				}
			}
			if r.OK {
				*e = Ent{}
			} else if !m.CB || !chk {
				e.Phys = Maybe // may have been removed silently (no callback to tell)
			}
		default:
			if chk && r.OK {
				return errf("DeleteExpired fired (k%d,%d) for a key that is not expired-present at this point", o.Key, r.V)
			}
		}
	case MRange, CRange, CItems:
		if chk {
			if err := noEv(r); err != nil {
				return err
			}
			if err := m.checkVisit(o, r); err != nil {
				return err
			}
		}
		// a traversal touches every entry: whether it cleans the expired ones it skips is as
		// unspecified as for a point read
		for i := range m.Ents {
			m.touch(&m.Ents[i])
		}
	case PVisitKey:
		// One key of a traversal: visited only if unexpired when the traversal began (m.Now);
		// must be visited if it stays present and unexpired until the traversal returns (m.StampNow).
		if err := needKey(); err != nil {
			return err
		}
		if chk {
			end := m.Now
			if m.StampNow > end {
				end = m.StampNow
			}
			liveEnd := m.live(e) && (e.E == 0 || end <= e.E)
			if r.OK {
				if !m.live(e) {
					return errf("traversal showed (k%d,%d) but the key is absent/expired", o.Key, r.V)
				}
				if r.V != e.V {
					return errf("traversal showed (k%d,%d), current value is %d", o.Key, r.V, e.V)
				}
			} else if liveEnd {
				return errf("traversal skipped k%d which is present and unexpired", o.Key)
			}
		}
		m.touch(e)
	case PColdVisit, PColdLoad:
		if chk {
			if (r.T == 1) != m.ColdOn {
				return errf("cold keys observed present=%v, model says %v", r.T == 1, m.ColdOn)
			}
		}
	case MClear, CClear:
		if chk {
			if err := noEv(r); err != nil {
				return err
			}
		}
		for i := range m.Ents {
			m.Ents[i] = Ent{}
		}
		m.ColdOn = false
	case MSize, CCount:
		if chk {
			live, def, maybe := m.Counts()
			n := int(r.T)
			if n < live+def || n > live+def+maybe {
				return errf("Size/Count = %d, expected %d..%d (live %d, expired definitely present %d, maybe %d)", n, live+def, live+def+maybe, live, def, maybe)
			}
		}
	case CDefaultExp:
		// the properties pin how entries expire, not the getter: any two defaults below 1ns behave alike
		if chk && r.T != m.D && !(r.T < 1 && m.D < 1) {
			return errf("DefaultExpiration() = %d, but entries stored with the default sentinel must behave as with %d", r.T, m.D)
		}
	case CSetDefaultExp:
		m.D = o.D
	case CSetCallback:
		m.CB = o.On
		m.CBTag = 0
		if o.On {
			m.CBTag = 1
			if o.N == 2 {
				m.CBTag = 2
			}
		}
	case HAdvance:
		m.Now += o.D
	case HGC:
		// no effect on the contents
	case HBulkSet:
		for i := 0; i < o.N; i++ {
			m.store(o.Key+i, o.Val+i, o.D)
		}
		if chk {
			if err := noEv(r); err != nil {
				return err
			}
		}
	case HBulkDel:
		want := []KV{}
		for i := 0; i < o.N; i++ {
			en := &m.Ents[o.Key+i]
			if m.live(en) {
				want = append(want, KV{o.Key + i, en.V})
			}
		}
		if chk {
			// live ones must fire, expired ones may
			got := map[int]int{}
			for _, kv := range r.Ev {
				if _, dup := got[kv.K]; dup {
					return errf("bulk delete fired twice for k%d", kv.K)
				}
				got[kv.K] = kv.V
			}
			if !m.CB && len(got) > 0 {
				return errf("callback fired although none is installed")
			}
			for _, w := range want {
				if m.CB {
					if v, ok := got[w.K]; !ok || v != w.V {
						return errf("Delete of live (k%d,%d) fired %v", w.K, w.V, got[w.K])
					}
				}
				delete(got, w.K)
			}
			for k, v := range got {
				if k < o.Key || k >= o.Key+o.N || !m.expired(&m.Ents[k]) || m.Ents[k].V != v {
					return errf("bulk delete fired (k%d,%d) which is not an entry it removed", k, v)
				}
			}
		}
		for i := 0; i < o.N; i++ {
			m.Ents[o.Key+i] = Ent{}
		}
	case HBulkGet:
		// r.Vis holds the hits
		if chk {
			got := map[int]int{}
			for _, kv := range r.Vis {
				got[kv.K] = kv.V
			}
			for i := 0; i < o.N; i++ {
				en := &m.Ents[o.Key+i]
				v, ok := got[o.Key+i]
				if m.live(en) {
					if !ok || v != en.V {
						return errf("Get(k%d) = (%d,%v), expected (%d,true)", o.Key+i, v, ok, en.V)
					}
				} else if ok {
					return errf("Get(k%d) = (%d,true), expected absent", o.Key+i, v)
				}
			}
			if err := noEv(r); err != nil {
				return err
			}
		}
		for i := 0; i < o.N; i++ {
			m.touch(&m.Ents[o.Key+i])
		}
	default:
		return errf("model: unknown op kind %d", o.K)
	}
	return nil
}

func (m *M) ttlOf(o *Op) int64 {
	switch o.K {
	case CSetDefault:
		return DefaultExpiration
	case CSetForever:
		return NoExpiration
	case MStore, MLoadOrStore, MLoadAndStore, MLoadOrCompute, MCompute:
		return NoExpiration
	}
	return o.D
}

// wantEv: must=true: if a callback is installed exactly [(k,v)] must have
// fired; must=false: nothing or exactly [(k,v)].
func (m *M) wantEv(r *Res, k, v int, must bool) error {
	if !m.CB {
		if len(r.Ev) != 0 {
			return errf("callback fired %v although none is installed", r.Ev)
		}
		return nil
	}
	if len(r.Ev) == 0 {
		if must {
			return errf("removed live entry (k%d,%d) but the evicted callback did not fire", k, v)
		}
		return nil
	}
	if len(r.Ev) != 1 || r.Ev[0].K != k || r.Ev[0].V != v {
		return errf("evicted callback fired %v, expected exactly [(k%d,%d)]", r.Ev, k, v)
	}
	return nil
}

// checkVisit: sequential oracle for Range / Items.
func (m *M) checkVisit(o *Op, r *Res) error {
	live := m.LiveSet()
	seen := map[int]bool{}
	for _, kv := range r.Vis {
		if seen[kv.K] {
			return errf("key k%d visited twice", kv.K)
		}
		seen[kv.K] = true
		if kv.K < 0 || kv.K >= len(m.Ents) {
			return errf("visited key k%d outside the universe", kv.K)
		}
		e := &m.Ents[kv.K]
		if !m.live(e) {
			return errf("visited (k%d,%d) which is absent or expired", kv.K, kv.V)
		}
		if e.V != kv.V {
			return errf("visited (k%d,%d), current value is %d", kv.K, kv.V, e.V)
		}
	}
	want := len(live)
	if o.K != CItems && o.N > 0 && o.N < want {
		want = o.N
	}

	if len(r.Vis) != want {
		return errf("%d pairs visited, expected %d (live entries %d, stop after %d)", len(r.Vis), want, len(live), o.N)
	}
	return nil
}

// SortKV sorts pairs by key then value.
func SortKV(x []KV) {
	sort.Slice(x, func(i, j int) bool {
		if x[i].K != x[j].K {
			return x[i].K < x[j].K
		}
		return x[i].V < x[j].V
	})
}
