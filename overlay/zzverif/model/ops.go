// Package model holds the operation vocabulary shared by all engines and the
// sequential reference models (map model and TTL-cache model). The same model
// is the step-by-step oracle of the sequential engines and the specification
// inside the linearizability checker.
package model

import (
	"fmt"
	"strings"
)

type Kind uint8

const (
	KNone Kind = iota
	// Map / MapOf
	MLoad
	MStore
	MLoadOrStore
	MLoadAndStore
	MLoadOrCompute
	MCompute
	MLoadAndDelete
	MDelete
	MClear
	MSize
	MRange
	// Cache / CacheOf
	CSet
	CSetDefault
	CSetForever
	CGet
	CGetExp
	CGetTTL
	CGetOrSet
	CGetAndSet
	CGetAndRefresh
	CGetOrCompute
	CCompute
	CGetAndDelete
	CDelete
	CDeleteExpired
	CRange
	CItems
	CClear
	CCount
	CDefaultExp
	CSetDefaultExp
	CSetCallback
	// harness-level
	HAdvance // clock += D
	HBulkSet // keys Key..Key+N-1, values Val+i, TTL D (caches) / Store (maps)
	HBulkDel // keys Key..Key+N-1 via Delete
	HBulkGet // keys Key..Key+N-1 via Get/Load, each checked
	// pseudo operations produced by decomposition (linearizability checker only)
	PSweepKey  // one key of a DeleteExpired: obs OK = fired, V = fired value
	PVisitKey  // one key of a Range/Items: obs OK = visited, V = value
	PColdVisit // cold keys as seen by a Range/Items: T = 1 all, 0 none
	PColdLoad  // cold keys as seen by quiescent Loads/Gets: T = 1 all, 0 none
	HGC        // harness: a full garbage collection followed by allocations that reuse freed memory (no effect on contents)
	kindMax
)

var kindNames = [...]string{
	KNone: "none", MLoad: "Load", MStore: "Store", MLoadOrStore: "LoadOrStore", MLoadAndStore: "LoadAndStore",
	MLoadOrCompute: "LoadOrCompute", MCompute: "Compute", MLoadAndDelete: "LoadAndDelete", MDelete: "Delete",
	MClear: "Clear", MSize: "Size", MRange: "Range",
	CSet: "Set", CSetDefault: "SetDefault", CSetForever: "SetForever", CGet: "Get", CGetExp: "GetWithExpiration",
	CGetTTL: "GetWithTTL", CGetOrSet: "GetOrSet", CGetAndSet: "GetAndSet", CGetAndRefresh: "GetAndRefresh",
	CGetOrCompute: "GetOrCompute", CCompute: "Compute", CGetAndDelete: "GetAndDelete", CDelete: "Delete",
	CDeleteExpired: "DeleteExpired", CRange: "Range", CItems: "Items", CClear: "Clear", CCount: "Count",
	CDefaultExp: "DefaultExpiration", CSetDefaultExp: "SetDefaultExpiration", CSetCallback: "SetEvictedCallback",
	HAdvance: "advance", HBulkSet: "bulkSet", HBulkDel: "bulkDelete", HBulkGet: "bulkGet",
	PSweepKey: "sweep", PVisitKey: "visit", PColdVisit: "coldVisit", PColdLoad: "coldLoad", HGC: "collectGarbage",
}

func (k Kind) String() string {
	if int(k) < len(kindNames) && kindNames[k] != "" {
		return kindNames[k]
	}
	return fmt.Sprintf("kind%d", int(k))
}

// Keyed reports whether the operation addresses one explicit key.
func (k Kind) Keyed() bool {
	switch k {
	case MClear, MSize, MRange, CDeleteExpired, CRange, CItems, CClear, CCount, CDefaultExp, CSetDefaultExp, CSetCallback,
		HAdvance, HBulkSet, HBulkDel, HBulkGet, PColdVisit, PColdLoad, HGC, KNone:
		return false
	}
	return true
}

// IsMapKind reports whether k is an operation of the Map/MapOf API.
func (k Kind) IsMapKind() bool { return k >= MLoad && k <= MRange }

// Sentinels of the cache package, duplicated here so the model does not import it.
const (
	NoExpiration      int64 = -2000000000
	DefaultExpiration int64 = -1000000000
)

// Compute function behaviours (Op.Fn).
const (
	FnStore      uint8 = iota // always store Val
	FnDelete                  // always delete
	FnStoreIfHit              // loaded: store Val; absent: delete
	FnDelIfHit                // loaded: delete; absent: store Val
)

// Op is one API call (or harness action) as data.
type Op struct {
	K    Kind  `json:"k"`
	Key  int   `json:"key,omitempty"`
	Val  int   `json:"val,omitempty"`
	D    int64 `json:"d,omitempty"`    // TTL argument / advance / default expiration
	Fn   uint8 `json:"fn,omitempty"`   // Compute behaviour
	N    int   `json:"n,omitempty"`    // bulk count / Range: stop after N visits (0 = never stop)
	Park bool  `json:"park,omitempty"` // user function calls vs.Park() (C16)
	On   bool  `json:"on,omitempty"`   // SetEvictedCallback: install (true) / remove (false)
	Muts []Mut `json:"muts,omitempty"` // Range: calls the visitor makes on the same container (C07)
	// FnAdv > 0: the user function takes time (advances the virtual clock by FnAdv);
	// FnDef != 0: the user function calls SetDefaultExpiration(FnDef). Twin comparison (C12) only.
	FnAdv int64 `json:"fnadv,omitempty"`
	FnDef int64 `json:"fndef,omitempty"`
}

// Mut is a call made from inside a Range visitor at its At-th invocation (0-based).
type Mut struct {
	At  int  `json:"at"`
	Op  Op   `json:"op"`
	Cur bool `json:"cur,omitempty"` // the call targets the key being visited (resolved at run time)
}

type KV struct {
	K int `json:"k"`
	V int `json:"v"`
}

type FnCall struct {
	Old    int  `json:"old"`
	Loaded bool `json:"loaded"`
}

// Res is what a call was observed to do.
type Res struct {
	V     int      `json:"v,omitempty"`
	OK    bool     `json:"ok,omitempty"`
	T     int64    `json:"t,omitempty"` // expiration instant (UnixNano, 0 none) / TTL / Size / Count / duration
	Fn    []FnCall `json:"fn,omitempty"`
	Ev    []KV     `json:"ev,omitempty"`  // evicted callbacks fired by the calling thread during the call
	EvB   int      `json:"evb,omitempty"` // how many of them went to the adapter's SECOND callback
	Vis   []KV     `json:"vis,omitempty"` // visitor calls in order (Range) or result map sorted (Items)
	C0    int      `json:"c0,omitempty"`  // Count probe before (sequential engines only; -1 = not probed)
	C1    int      `json:"c1,omitempty"`  // Count probe after
	Probe bool     `json:"probe,omitempty"`
	Panic string   `json:"panic,omitempty"`
	Note  string   `json:"note,omitempty"`
}

func ttlStr(d int64) string {
	switch d {
	case NoExpiration:
		return "NoExp"
	case DefaultExpiration:
		return "Default"
	}
	return fmt.Sprintf("%dns", d)
}

func (o Op) String() string {
	switch o.K {
	case MLoad, MLoadAndDelete, MDelete, CGet, CGetExp, CGetTTL, CGetAndDelete, CDelete:
		return fmt.Sprintf("%s(k%d)", o.K, o.Key)
	case MStore, MLoadOrStore, MLoadAndStore, CSetDefault, CSetForever:
		return fmt.Sprintf("%s(k%d,%d)", o.K, o.Key, o.Val)
	case MLoadOrCompute:
		return fmt.Sprintf("%s(k%d,fn->%d%s)", o.K, o.Key, o.Val, parkStr(o.Park))
	case MCompute:
		return fmt.Sprintf("%s(k%d,%s->%d%s)", o.K, o.Key, fnStr(o.Fn), o.Val, parkStr(o.Park))
	case CSet, CGetOrSet, CGetAndSet:
		return fmt.Sprintf("%s(k%d,%d,%s)", o.K, o.Key, o.Val, ttlStr(o.D))
	case CGetAndRefresh:
		return fmt.Sprintf("%s(k%d,%s)", o.K, o.Key, ttlStr(o.D))
	case CGetOrCompute:
		return fmt.Sprintf("%s(k%d,fn->%d%s,%s)", o.K, o.Key, o.Val, parkStr(o.Park), ttlStr(o.D))
	case CCompute:
		return fmt.Sprintf("%s(k%d,%s->%d%s,%s)", o.K, o.Key, fnStr(o.Fn), o.Val, parkStr(o.Park), ttlStr(o.D))
	case MRange, CRange:
		x := ""
		if o.N > 0 {
			x = fmt.Sprintf("stop@%d", o.N)
		}
		for _, mu := range o.Muts {
			c := ""
			if mu.Cur {
				c = "[key:=visited]"
			}
			x += fmt.Sprintf(" @%d:%s%s", mu.At, mu.Op.String(), c)
		}
		return fmt.Sprintf("%s(%s)", o.K, x)
	case CSetDefaultExp:
		return fmt.Sprintf("%s(%s)", o.K, ttlStr(o.D))
	case CSetCallback:
		return fmt.Sprintf("%s(%v)", o.K, o.On)
	case HAdvance:
		return fmt.Sprintf("advance(%dns)", o.D)
	case HBulkSet:
		return fmt.Sprintf("bulkSet(k%d..k%d,v%d..,%s)", o.Key, o.Key+o.N-1, o.Val, ttlStr(o.D))
	case HBulkDel, HBulkGet:
		return fmt.Sprintf("%s(k%d..k%d)", o.K, o.Key, o.Key+o.N-1)
	case PSweepKey, PVisitKey:
		return fmt.Sprintf("%s(k%d)", o.K, o.Key)
	}
	return fmt.Sprintf("%s()", o.K)
}

func parkStr(p bool) string {
	if p {
		return ",park"
	}
	return ""
}

func fnStr(f uint8) string {
	switch f {
	case FnStore:
		return "store"
	case FnDelete:
		return "delete"
	case FnStoreIfHit:
		return "storeIfHit"
	case FnDelIfHit:
		return "delIfHit"
	}
	return "?"
}

func (r Res) String() string {
	var sb strings.Builder
	fmt.Fprintf(&sb, "(%d,%v", r.V, r.OK)
	if r.T != 0 {
		fmt.Fprintf(&sb, ",t=%d", r.T)
	}
	sb.WriteString(")")
	if len(r.Fn) > 0 {
		fmt.Fprintf(&sb, " fn%v", r.Fn)
	}
	if len(r.Ev) > 0 {
		fmt.Fprintf(&sb, " evicted%v", r.Ev)
	}
	if len(r.Vis) > 0 {
		if len(r.Vis) > 12 {
			fmt.Fprintf(&sb, " visited[%d pairs]", len(r.Vis))
		} else {
			fmt.Fprintf(&sb, " visited%v", r.Vis)
		}
	}
	if r.Probe {
		fmt.Fprintf(&sb, " count %d->%d", r.C0, r.C1)
	}
	if r.Panic != "" {
		fmt.Fprintf(&sb, " PANIC %s", r.Panic)
	}
	return sb.String()
}

// FnResult evaluates the behaviour of a Compute user function.
func FnResult(fn uint8, val int, loaded bool) (nv int, del bool) {
	switch fn {
	case FnStore:
		return val, false
	case FnDelete:
		return val, true
	case FnStoreIfHit:
		return val, !loaded
	case FnDelIfHit:
		return val, loaded
	}
	return val, false
}
