// Package adapt gives the four containers one int-keyed, int-valued face and
// executes model.Op values against them, recording model.Res observations.
//
// Values are unique positive ints; 0 stands for the zero value / nil.
package adapt

import (
	"fmt"
	"runtime"
	"runtime/debug"
	"sort"
	"strconv"
	"strings"
	"time"

	cache "github.com/fufuok/cache"
	"github.com/fufuok/cache/internal/xsync"
	"github.com/fufuok/cache/zzverif/model"
	"github.com/fufuok/cache/zzverif/vs"
)

// Spec describes a container to build.
type Spec struct {
	Kind     string      `json:"kind"`                       // map | mapof | cache | cacheof
	Key      string      `json:"keytype,omitempty"`          // for *of kinds: int | string | struct
	Hasher   string      `json:"hasher,omitempty"`           // mapof only: "" default | const | samebucket | sameh2 | identity | lowbits
	Presize  int         `json:"presize,omitempty"`          // map/mapof presize hint; cache MinCapacity
	GrowOnly bool        `json:"grow_only,omitempty"`        // map/mapof: xsync.WithGrowOnly() (internal option; never shrinks except on Clear)
	Ctor     string      `json:"ctor,omitempty"`             // cache: "new" (options) | "default" (NewDefault)
	DefExp   int64       `json:"defexp,omitempty"`           // cache default expiration handed to the constructor
	HasDef   bool        `json:"hasdef,omitempty"`           // pass DefExp (otherwise library default)
	CB       bool        `json:"cb,omitempty"`               // install evicted callback at construction
	Reenter  uint8       `json:"reenter,omitempty"`          // callback re-entry: 0 none, 1 Get(k) (must not return the evicted value), 2 Count(), 3 both
	Shadow   []ShadowOpt `json:"shadowed_options,omitempty"` // New/NewOf: options given EARLIER in the list and overridden by a later occurrence of the same option (last one wins)
	OptPerm  uint8       `json:"option_order,omitempty"`     // New/NewOf: rotation of the (distinct) effective options
	ReOps    []model.Op  `json:"re_ops,omitempty"`           // callback re-entry with arbitrary calls: the i-th callback invocation performs ReOps[i mod n] (nesting capped at 2)
	Cleanup  int64       `json:"cleanup,omitempty"`          // cleanup interval handed to constructor (virtual clock: ticker never fires)
	Native   bool        `json:"native,omitempty"`           // natively parallel use: no callback attribution (it is per virtual thread)
	// Alias maps small key ids to other ids for string-keyed containers (id -> "k<alias>"): lets a
	// generator make hot keys out of strings found by a search (top-hash collisions). Recomputed per process.
	Alias map[int]int `json:"-"`
}

func (s Spec) IsCache() bool { return s.Kind == "cache" || s.Kind == "cacheof" }

func (s Spec) String() string {
	x := s.Kind
	if s.Key != "" {
		x += "[" + s.Key + "]"
	}
	if s.Hasher != "" {
		x += " hasher=" + s.Hasher
	}
	if s.GrowOnly {
		x += " growOnly"
	}
	for _, sh := range s.Shadow {
		x += fmt.Sprintf(" [earlier option %s=%d, overridden]", sh.Name, sh.D)
	}
	if s.Presize != 0 {
		x += fmt.Sprintf(" presize=%d", s.Presize)
	}
	if s.IsCache() {
		if s.HasDef {
			x += " default=" + strconv.FormatInt(s.DefExp, 10)
		}
		if s.CB {
			x += fmt.Sprintf(" callback(reenter=%d)", s.Reenter)
		}
		if s.Ctor != "" {
			x += " ctor=" + s.Ctor
		}
	}
	return x
}

// TableStats is what the generators may observe to classify cases (never used by an oracle).
type TableStats struct {
	OK             bool
	Growths        int64
	Shrinks        int64
	Root, Total    int
	MaxChain, Size int
}

func fromStats(s xsync.MapStats) TableStats {
	return TableStats{OK: true, Growths: s.TotalGrowths, Shrinks: s.TotalShrinks, Root: s.RootBuckets, Total: s.TotalBuckets, MaxChain: s.MaxEntries, Size: s.Size}
}

// SKey is the padded struct key type.
type SKey struct {
	A int32
	B string
	C uint8
	D int64
}

// API is the int-faced container.
type API interface {
	Do(o *model.Op) model.Res
	// EffDefault returns the default expiration the constructor is expected to have normalised to.
	Spec() Spec
	// Stats returns (growths, shrinks, rootBuckets) when the container exposes them (-1 otherwise).
	Stats() (int64, int64, int)
	// Table returns table statistics when the container exposes them.
	Table() TableStats
	// Release drops the adapter's reference to the container. The evicted callback the adapter
	// installs references the adapter (to re-enter the cache); together with the cache's own
	// reference to the callback that is a cycle through an object with a finalizer, which the Go
	// runtime never collects — the harness must break it when a case is over.
	Release()
}

const maxThreads = 8

// ShadowOpt is an option occurrence that a later one overrides. Name: defexp | cleanup | callback | mincap.
type ShadowOpt struct {
	Name string `json:"name"`
	D    int64  `json:"d,omitempty"`
}

type sinkSet struct {
	sinks [maxThreads + 1]*model.Res
	stray []model.KV
	depth [maxThreads + 1]int // nesting of re-entrant calls made from callbacks, per thread
	reN   int
	ReLog []string // re-entrant calls made (for reports)
}

func tid() int {
	if t := vs.Cur(); t != nil {
		return t.ID + 1
	}
	return 0
}

func fnHook(o *model.Op) {
	if o.Park {
		vs.Park()
	}
}

// ---- key codecs ----

type codec[K comparable] struct {
	to   func(int) K
	from func(K) int
}

func intCodec() codec[int] {
	return codec[int]{to: func(i int) int { return i*7919 + 13 }, from: func(k int) int { return (k - 13) / 7919 }}
}

func strCodecAlias(alias map[int]int) codec[string] {
	base := strCodec()
	if len(alias) == 0 {
		return base
	}
	back := map[int]int{}
	for k, v := range alias {
		back[v] = k
	}
	return codec[string]{
		to: func(i int) string {
			if a, ok := alias[i]; ok {
				return "k" + strconv.Itoa(a)
			}
			return base.to(i)
		},
		from: func(s string) int {
			n := base.from(s)
			if k, ok := back[n]; ok {
				return k
			}
			return n
		}}
}

var longKey = strings.Repeat("long-key/", 33) + "2"

func strCodec() codec[string] {
	// key 1 is the EMPTY string (hashed by a special case in the library)
	return codec[string]{
		to: func(i int) string {
			switch i {
			case 1:
				return ""
			case 2:
				return longKey // key 2 is 300 bytes long (hash functions treat long inputs on another path)
			}
			return "k" + strconv.Itoa(i)
		},
		from: func(s string) int {
			if s == "" {
				return 1
			}
			if s == longKey {
				return 2
			}
			if len(s) < 2 || s[0] != 'k' {
				return -1
			}
			n, err := strconv.Atoi(s[1:])
			if err != nil || n == 1 || n == 2 {
				return -1
			}
			return n
		}}
}

func structCodec() codec[SKey] {
	return codec[SKey]{
		to:   func(i int) SKey { return SKey{A: int32(i), B: "s" + strconv.Itoa(i%3), C: uint8(i), D: int64(i) * 3} },
		from: func(k SKey) int { return int(k.A) },
	}
}

// ---- hashers (adversarial layouts) ----

func hasherFor[K comparable](name string, from func(K) int) func(K, uint64) uint64 {
	switch name {
	case "const":
		// every key in one bucket with one h2: one chain, all meta bytes equal
		return func(K, uint64) uint64 { return 0x2a }
	case "samebucket":
		// same bucket, distinct 7-bit h2 (mod 128)
		return func(k K, _ uint64) uint64 { return uint64(from(k)) & 0x7f }
	case "sameh2":
		// same h2, bucket index = key id
		return func(k K, _ uint64) uint64 { return uint64(from(k))<<7 | 0x11 }
	case "identity":
		return func(k K, _ uint64) uint64 { return uint64(from(k)) }
	case "split":
		// cold keys (ids >= 1000) share eight buckets with hot key 0; every other hot key has a
		// root bucket of its own that stays EMPTY however full the table is (first insert into an
		// empty bucket while a resize triggered from a crowded bucket is running)
		return func(k K, _ uint64) uint64 {
			i := uint64(from(k))
			if i >= 1000 {
				return (i&7)<<7 | ((i >> 3) & 0x7f)
			}
			if i == 0 {
				return 0<<7 | 0x7e
			}
			return (16+i)<<7 | 0x7d
		}
	case "lowbits":
		// four buckets only, h2 from the key: long chains with mixed meta bytes
		return func(k K, seed uint64) uint64 {
			i := uint64(from(k))
			return (i&3)<<7 | ((i >> 2) & 0x7f)
		}
	}
	return nil
}

// ---- Map ----

type mapAd struct {
	spec Spec
	m    cache.Map
	raw  *xsync.Map
	kc   codec[string]
}

var churnSink [][]uintptr

// CollectAndChurn runs two full collections and then allocates thousands of small pointer-free objects filled with a
// recognisable pattern, so that memory freed by the collection is handed out again at once: an object the library
// still uses but no longer keeps reachable for the collector (a pointer parked in a uintptr, a missing KeepAlive)
// is overwritten and shows up as a pair nobody stored.
func CollectAndChurn() {
	runtime.GC()
	runtime.GC()
	churnSink = churnSink[:0]
	for sz := 1; sz <= 8; sz++ {
		for i := 0; i < 1500; i++ {
			b := make([]uintptr, sz)
			for j := range b {
				b[j] = 0x5a5a5a5a5a5a5a5a
			}
			churnSink = append(churnSink, b)
		}
	}
}

// boxVal: the untyped containers (Map, Cache) store the value 0 as a nil interface — the edge the typed twins
// cannot express; it reads back as 0 (toInt), so the model is unaffected.
func boxVal(v int) interface{} {
	if v == 0 {
		return nil
	}
	return v
}

func toInt(v interface{}) int {
	if v == nil {
		return 0
	}
	if i, ok := v.(int); ok {
		return i
	}
	return -999
}

func (a *mapAd) Spec() Spec { return a.spec }
func (a *mapAd) Release()   {}
func (a *mapAd) Table() TableStats {
	if a.raw == nil {
		return TableStats{}
	}
	return fromStats(a.raw.Stats())
}
func (a *mapAd) Stats() (int64, int64, int) {
	if a.raw == nil {
		return -1, -1, -1
	}
	s := a.raw.Stats()
	return s.TotalGrowths, s.TotalShrinks, s.RootBuckets
}

func (a *mapAd) Do(o *model.Op) (r model.Res) {
	k := a.kc.to(o.Key)
	switch o.K {
	case model.MLoad:
		v, ok := a.m.Load(k)
		r.V, r.OK = toInt(v), ok
	case model.MStore:
		a.m.Store(k, boxVal(o.Val))
	case model.MLoadOrStore:
		v, ok := a.m.LoadOrStore(k, boxVal(o.Val))
		r.V, r.OK = toInt(v), ok
	case model.MLoadAndStore:
		v, ok := a.m.LoadAndStore(k, boxVal(o.Val))
		r.V, r.OK = toInt(v), ok
	case model.MLoadOrCompute:
		v, ok := a.m.LoadOrCompute(k, func() interface{} {
			r.Fn = append(r.Fn, model.FnCall{})
			fnHook(o)
			return boxVal(o.Val)
		})
		r.V, r.OK = toInt(v), ok
	case model.MCompute:
		v, ok := a.m.Compute(k, func(old interface{}, loaded bool) (interface{}, bool) {
			r.Fn = append(r.Fn, model.FnCall{Old: toInt(old), Loaded: loaded})
			fnHook(o)
			nv, del := model.FnResult(o.Fn, o.Val, loaded)
			return boxVal(nv), del
		})
		r.V, r.OK = toInt(v), ok
	case model.MLoadAndDelete:
		v, ok := a.m.LoadAndDelete(k)
		r.V, r.OK = toInt(v), ok
	case model.MDelete:
		a.m.Delete(k)
	case model.MClear:
		a.m.Clear()
	case model.MSize:
		r.T = int64(a.m.Size())
	case model.MRange:
		n := 0
		a.m.Range(func(k string, v interface{}) bool {
			r.Vis = append(r.Vis, model.KV{K: a.kc.from(k), V: toInt(v)})
			n++
			for i := range o.Muts {
				if o.Muts[i].At == n-1 {
					mo := o.Muts[i].Op
					if o.Muts[i].Cur {
						mo.Key = r.Vis[len(r.Vis)-1].K
					}
					a.Do(&mo)
				}
			}
			return !(o.N > 0 && n >= o.N)
		})
	case model.HBulkSet:
		for i := 0; i < o.N; i++ {
			a.m.Store(a.kc.to(o.Key+i), o.Val+i)
		}
	case model.HBulkDel:
		for i := 0; i < o.N; i++ {
			a.m.Delete(a.kc.to(o.Key + i))
		}
	case model.HBulkGet:
		for i := 0; i < o.N; i++ {
			if v, ok := a.m.Load(a.kc.to(o.Key + i)); ok {
				r.Vis = append(r.Vis, model.KV{K: o.Key + i, V: toInt(v)})
			}
		}
	case model.HAdvance:
		vs.NowNS += o.D
	case model.HGC:
		CollectAndChurn()
	default:
		r.Note = "unsupported"
	}
	return
}

// ---- MapOf ----

type mapOfAd[K comparable] struct {
	spec Spec
	m    cache.MapOf[K, int]
	raw  *xsync.MapOf[K, int]
	kc   codec[K]
}

func (a *mapOfAd[K]) Spec() Spec { return a.spec }
func (a *mapOfAd[K]) Release()   {}
func (a *mapOfAd[K]) Table() TableStats {
	if a.raw == nil {
		return TableStats{}
	}
	return fromStats(a.raw.Stats())
}
func (a *mapOfAd[K]) Stats() (int64, int64, int) {
	if a.raw == nil {
		return -1, -1, -1
	}
	s := a.raw.Stats()
	return s.TotalGrowths, s.TotalShrinks, s.RootBuckets
}

func (a *mapOfAd[K]) Do(o *model.Op) (r model.Res) {
	k := a.kc.to(o.Key)
	switch o.K {
	case model.MLoad:
		r.V, r.OK = a.m.Load(k)
	case model.MStore:
		a.m.Store(k, o.Val)
	case model.MLoadOrStore:
		r.V, r.OK = a.m.LoadOrStore(k, o.Val)
	case model.MLoadAndStore:
		r.V, r.OK = a.m.LoadAndStore(k, o.Val)
	case model.MLoadOrCompute:
		r.V, r.OK = a.m.LoadOrCompute(k, func() int {
			r.Fn = append(r.Fn, model.FnCall{})
			fnHook(o)
			return o.Val
		})
	case model.MCompute:
		r.V, r.OK = a.m.Compute(k, func(old int, loaded bool) (int, bool) {
			r.Fn = append(r.Fn, model.FnCall{Old: old, Loaded: loaded})
			fnHook(o)
			return model.FnResult(o.Fn, o.Val, loaded)
		})
	case model.MLoadAndDelete:
		r.V, r.OK = a.m.LoadAndDelete(k)
	case model.MDelete:
		a.m.Delete(k)
	case model.MClear:
		a.m.Clear()
	case model.MSize:
		r.T = int64(a.m.Size())
	case model.MRange:
		n := 0
		a.m.Range(func(k K, v int) bool {
			r.Vis = append(r.Vis, model.KV{K: a.kc.from(k), V: v})
			n++
			for i := range o.Muts {
				if o.Muts[i].At == n-1 {
					mo := o.Muts[i].Op
					if o.Muts[i].Cur {
						mo.Key = r.Vis[len(r.Vis)-1].K
					}
					a.Do(&mo)
				}
			}
			return !(o.N > 0 && n >= o.N)
		})
	case model.HBulkSet:
		for i := 0; i < o.N; i++ {
			a.m.Store(a.kc.to(o.Key+i), o.Val+i)
		}
	case model.HBulkDel:
		for i := 0; i < o.N; i++ {
			a.m.Delete(a.kc.to(o.Key + i))
		}
	case model.HBulkGet:
		for i := 0; i < o.N; i++ {
			if v, ok := a.m.Load(a.kc.to(o.Key + i)); ok {
				r.Vis = append(r.Vis, model.KV{K: o.Key + i, V: v})
			}
		}
	case model.HAdvance:
		vs.NowNS += o.D
	case model.HGC:
		CollectAndChurn()
	default:
		r.Note = "unsupported"
	}
	return
}

func newMapOf[K comparable](s Spec, kc codec[K]) API {
	a := &mapOfAd[K]{spec: s, kc: kc}
	if s.Hasher != "" {
		h := hasherFor[K](s.Hasher, kc.from)
		var opts []func(*xsync.MapConfig)
		if s.Presize != 0 {
			opts = append(opts, xsync.WithPresize(s.Presize))
		}
		if s.GrowOnly {
			opts = append(opts, xsync.WithGrowOnly())
		}
		a.raw = xsync.NewMapOfWithHasher[K, int](h, opts...)
		a.m = a.raw
		return a
	}
	if s.GrowOnly {
		opts := []func(*xsync.MapConfig){xsync.WithGrowOnly()}
		if s.Presize != 0 {
			opts = append(opts, xsync.WithPresize(s.Presize))
		}
		a.raw = xsync.NewMapOf[K, int](opts...)
		a.m = a.raw
		return a
	}
	if s.Presize != 0 {
		a.m = cache.NewMapOfPresized[K, int](s.Presize)
	} else {
		a.m = cache.NewMapOf[K, int]()
	}
	if raw, ok := a.m.(*xsync.MapOf[K, int]); ok {
		a.raw = raw
	}
	return a
}

// ---- Cache (string / interface{}) ----

func timeToNS(t time.Time) int64 {
	if t.IsZero() {
		return 0
	}
	return t.UnixNano()
}

type cacheAd struct {
	spec Spec
	c    cache.Cache
	kc   codec[string]
	ss   *sinkSet
	cb   cache.EvictedCallback
	cb2  cache.EvictedCallback
}

func (a *cacheAd) ReLog() []string            { return a.ss.ReLog }
func (a *cacheAd) Spec() Spec                 { return a.spec }
func (a *cacheAd) Release()                   { a.c = nil }
func (a *cacheAd) Table() TableStats          { return TableStats{} }
func (a *cacheAd) Stats() (int64, int64, int) { return -1, -1, -1 }

func (a *cacheAd) mkCallback(second bool) cache.EvictedCallback {
	ss := a.ss
	return func(k string, v interface{}) {
		ki := a.kc.from(k)
		vi := toInt(v)
		if s := ss.sinks[tid()]; s != nil {
			s.Ev = append(s.Ev, model.KV{K: ki, V: vi})
			if second {
				s.EvB++
			}
			if (a.spec.Reenter == 1 || a.spec.Reenter == 3) && a.c != nil {
				if g, ok := a.c.Get(k); ok && toInt(g) == vi {
					s.Note += fmt.Sprintf("callback for (k%d,%d): value still retrievable; ", ki, vi)
				}
			}
			if a.spec.Reenter >= 2 && a.c != nil {
				_ = a.c.Count()
			}
			if n := len(a.spec.ReOps); n > 0 && a.c != nil {
				if t := tid(); ss.depth[t] < 2 {
					ss.depth[t]++
					op := a.spec.ReOps[ss.reN%n]
					ss.reN++
					if len(ss.ReLog) < 40 {
						ss.ReLog = append(ss.ReLog, fmt.Sprintf("in callback(k%d,%d): %s", ki, vi, op.String()))
					}
					_ = a.Do(&op)
					ss.depth[t]--
				}
			}
		} else {
			ss.stray = append(ss.stray, model.KV{K: ki, V: vi})
		}
	}
}

func (a *cacheAd) Do(o *model.Op) (r model.Res) {
	if !a.spec.Native {
		t := tid()
		outer := a.ss.sinks[t]
		a.ss.sinks[t] = &r
		defer func() { a.ss.sinks[t] = outer }()
	}
	k := a.kc.to(o.Key)
	d := time.Duration(o.D)
	c := a.c
	switch o.K {
	case model.CSet:
		c.Set(k, boxVal(o.Val), d)
	case model.CSetDefault:
		c.SetDefault(k, boxVal(o.Val))
	case model.CSetForever:
		c.SetForever(k, boxVal(o.Val))
	case model.CGet:
		v, ok := c.Get(k)
		r.V, r.OK = toInt(v), ok
	case model.CGetExp:
		v, tm, ok := c.GetWithExpiration(k)
		r.V, r.OK, r.T = toInt(v), ok, timeToNS(tm)
	case model.CGetTTL:
		v, ttl, ok := c.GetWithTTL(k)
		r.V, r.OK, r.T = toInt(v), ok, int64(ttl)
	case model.CGetOrSet:
		v, ok := c.GetOrSet(k, boxVal(o.Val), d)
		r.V, r.OK = toInt(v), ok
	case model.CGetAndSet:
		v, ok := c.GetAndSet(k, boxVal(o.Val), d)
		r.V, r.OK = toInt(v), ok
	case model.CGetAndRefresh:
		v, ok := c.GetAndRefresh(k, d)
		r.V, r.OK = toInt(v), ok
	case model.CGetOrCompute:
		v, ok := c.GetOrCompute(k, func() interface{} {
			r.Fn = append(r.Fn, model.FnCall{})
			fnHook(o)
			return boxVal(o.Val)
		}, d)
		r.V, r.OK = toInt(v), ok
	case model.CCompute:
		v, ok := c.Compute(k, func(old interface{}, loaded bool) (interface{}, bool) {
			r.Fn = append(r.Fn, model.FnCall{Old: toInt(old), Loaded: loaded})
			fnHook(o)
			nv, del := model.FnResult(o.Fn, o.Val, loaded)
			return boxVal(nv), del
		}, d)
		r.V, r.OK = toInt(v), ok
	case model.CGetAndDelete:
		v, ok := c.GetAndDelete(k)
		r.V, r.OK = toInt(v), ok
	case model.CDelete:
		c.Delete(k)
	case model.CDeleteExpired:
		c.DeleteExpired()
	case model.CRange:
		n := 0
		c.Range(func(k string, v interface{}) bool {
			r.Vis = append(r.Vis, model.KV{K: a.kc.from(k), V: toInt(v)})
			n++
			for i := range o.Muts {
				if o.Muts[i].At == n-1 {
					mo := o.Muts[i].Op
					if o.Muts[i].Cur {
						mo.Key = r.Vis[len(r.Vis)-1].K
					}
					a.Do(&mo)
				}
			}
			return !(o.N > 0 && n >= o.N)
		})
	case model.CItems:
		for k, v := range c.Items() {
			r.Vis = append(r.Vis, model.KV{K: a.kc.from(k), V: toInt(v)})
		}
		model.SortKV(r.Vis)
	case model.CClear:
		c.Clear()
	case model.CCount:
		r.T = int64(c.Count())
	case model.CDefaultExp:
		r.T = int64(c.DefaultExpiration())
	case model.CSetDefaultExp:
		c.SetDefaultExpiration(d)
	case model.CSetCallback:
		if o.On && o.N == 2 {
			c.SetEvictedCallback(a.cb2)
		} else if o.On {
			c.SetEvictedCallback(a.cb)
		} else {
			c.SetEvictedCallback(nil)
		}
		r.OK = c.EvictedCallback() != nil // informational only: no property pins the getter
	case model.HBulkSet:
		for i := 0; i < o.N; i++ {
			c.Set(a.kc.to(o.Key+i), o.Val+i, d)
		}
	case model.HBulkDel:
		for i := 0; i < o.N; i++ {
			c.Delete(a.kc.to(o.Key + i))
		}
	case model.HBulkGet:
		for i := 0; i < o.N; i++ {
			if v, ok := c.Get(a.kc.to(o.Key + i)); ok {
				r.Vis = append(r.Vis, model.KV{K: o.Key + i, V: toInt(v)})
			}
		}
	case model.HAdvance:
		vs.NowNS += o.D
	case model.HGC:
		CollectAndChurn()
	default:
		r.Note = "unsupported"
	}
	return
}

func newCache(s Spec) API {
	a := &cacheAd{spec: s, kc: strCodecAlias(s.Alias), ss: &sinkSet{}}
	a.cb = a.mkCallback(false)
	a.cb2 = a.mkCallback(true)
	var cb cache.EvictedCallback
	if s.CB {
		cb = a.cb
	}
	switch s.Ctor {
	case "default":
		de := time.Duration(s.DefExp)
		if s.CB {
			a.c = cache.NewDefault(de, time.Duration(s.Cleanup), cb)
		} else {
			a.c = cache.NewDefault(de, time.Duration(s.Cleanup))
		}
	default:
		opts := []cache.Option{cache.WithCleanupInterval(time.Duration(s.Cleanup))}
		if s.HasDef {
			opts = append(opts, cache.WithDefaultExpiration(time.Duration(s.DefExp)))
		}
		if s.CB {
			opts = append(opts, cache.WithEvictedCallback(cb))
		}
		if s.Presize != 0 {
			opts = append(opts, cache.WithMinCapacity(s.Presize))
		}
		if r := int(s.OptPerm) % len(opts); r > 0 {
			opts = append(opts[r:len(opts):len(opts)], opts[:r]...)
		}
		// occurrences that a later one overrides go first; each is followed (somewhere later) by the effective one
		var pre []cache.Option
		for _, sh := range s.Shadow {
			switch sh.Name {
			case "defexp":
				if s.HasDef {
					pre = append(pre, cache.WithDefaultExpiration(time.Duration(sh.D)))
				}
			case "cleanup":
				if sh.D <= 0 { // never start a second janitor's worth of trouble: shadowed intervals are non-positive
					pre = append(pre, cache.WithCleanupInterval(time.Duration(sh.D)))
				}
			case "callback":
				if s.CB {
					pre = append(pre, cache.WithEvictedCallback(a.cb2))
				}
			case "mincap":
				if s.Presize != 0 {
					pre = append(pre, cache.WithMinCapacity(int(sh.D)))
				}
			}
		}
		a.c = cache.New(append(pre, opts...)...)
	}
	return a
}

// ---- CacheOf ----

type cacheOfAd[K comparable] struct {
	spec Spec
	c    cache.CacheOf[K, int]
	kc   codec[K]
	ss   *sinkSet
	cb   cache.EvictedCallbackOf[K, int]
	cb2  cache.EvictedCallbackOf[K, int]
}

func (a *cacheOfAd[K]) ReLog() []string            { return a.ss.ReLog }
func (a *cacheOfAd[K]) Spec() Spec                 { return a.spec }
func (a *cacheOfAd[K]) Release()                   { a.c = nil }
func (a *cacheOfAd[K]) Table() TableStats          { return TableStats{} }
func (a *cacheOfAd[K]) Stats() (int64, int64, int) { return -1, -1, -1 }

func (a *cacheOfAd[K]) mkCallback(second bool) cache.EvictedCallbackOf[K, int] {
	ss := a.ss
	return func(k K, v int) {
		ki := a.kc.from(k)
		if s := ss.sinks[tid()]; s != nil {
			s.Ev = append(s.Ev, model.KV{K: ki, V: v})
			if second {
				s.EvB++
			}
			if (a.spec.Reenter == 1 || a.spec.Reenter == 3) && a.c != nil {
				if g, ok := a.c.Get(k); ok && g == v {
					s.Note += fmt.Sprintf("callback for (k%d,%d): value still retrievable; ", ki, v)
				}
			}
			if a.spec.Reenter >= 2 && a.c != nil {
				_ = a.c.Count()
			}
			if n := len(a.spec.ReOps); n > 0 && a.c != nil {
				if t := tid(); ss.depth[t] < 2 {
					ss.depth[t]++
					op := a.spec.ReOps[ss.reN%n]
					ss.reN++
					if len(ss.ReLog) < 40 {
						ss.ReLog = append(ss.ReLog, fmt.Sprintf("in callback(k%d,%d): %s", ki, v, op.String()))
					}
					_ = a.Do(&op)
					ss.depth[t]--
				}
			}
		} else {
			ss.stray = append(ss.stray, model.KV{K: ki, V: v})
		}
	}
}

func (a *cacheOfAd[K]) Do(o *model.Op) (r model.Res) {
	if !a.spec.Native {
		t := tid()
		outer := a.ss.sinks[t]
		a.ss.sinks[t] = &r
		defer func() { a.ss.sinks[t] = outer }()
	}
	k := a.kc.to(o.Key)
	d := time.Duration(o.D)
	c := a.c
	switch o.K {
	case model.CSet:
		c.Set(k, o.Val, d)
	case model.CSetDefault:
		c.SetDefault(k, o.Val)
	case model.CSetForever:
		c.SetForever(k, o.Val)
	case model.CGet:
		r.V, r.OK = c.Get(k)
	case model.CGetExp:
		var tm time.Time
		r.V, tm, r.OK = c.GetWithExpiration(k)
		r.T = timeToNS(tm)
	case model.CGetTTL:
		var ttl time.Duration
		r.V, ttl, r.OK = c.GetWithTTL(k)
		r.T = int64(ttl)
	case model.CGetOrSet:
		r.V, r.OK = c.GetOrSet(k, o.Val, d)
	case model.CGetAndSet:
		r.V, r.OK = c.GetAndSet(k, o.Val, d)
	case model.CGetAndRefresh:
		r.V, r.OK = c.GetAndRefresh(k, d)
	case model.CGetOrCompute:
		r.V, r.OK = c.GetOrCompute(k, func() int {
			r.Fn = append(r.Fn, model.FnCall{})
			fnHook(o)
			return o.Val
		}, d)
	case model.CCompute:
		r.V, r.OK = c.Compute(k, func(old int, loaded bool) (int, bool) {
			r.Fn = append(r.Fn, model.FnCall{Old: old, Loaded: loaded})
			fnHook(o)
			return model.FnResult(o.Fn, o.Val, loaded)
		}, d)
	case model.CGetAndDelete:
		r.V, r.OK = c.GetAndDelete(k)
	case model.CDelete:
		c.Delete(k)
	case model.CDeleteExpired:
		c.DeleteExpired()
	case model.CRange:
		n := 0
		c.Range(func(k K, v int) bool {
			r.Vis = append(r.Vis, model.KV{K: a.kc.from(k), V: v})
			n++
			for i := range o.Muts {
				if o.Muts[i].At == n-1 {
					mo := o.Muts[i].Op
					if o.Muts[i].Cur {
						mo.Key = r.Vis[len(r.Vis)-1].K
					}
					a.Do(&mo)
				}
			}
			return !(o.N > 0 && n >= o.N)
		})
	case model.CItems:
		for k, v := range c.Items() {
			r.Vis = append(r.Vis, model.KV{K: a.kc.from(k), V: v})
		}
		model.SortKV(r.Vis)
	case model.CClear:
		c.Clear()
	case model.CCount:
		r.T = int64(c.Count())
	case model.CDefaultExp:
		r.T = int64(c.DefaultExpiration())
	case model.CSetDefaultExp:
		c.SetDefaultExpiration(d)
	case model.CSetCallback:
		if o.On && o.N == 2 {
			c.SetEvictedCallback(a.cb2)
		} else if o.On {
			c.SetEvictedCallback(a.cb)
		} else {
			c.SetEvictedCallback(nil)
		}
		r.OK = c.EvictedCallback() != nil // informational only: no property pins the getter
	case model.HBulkSet:
		for i := 0; i < o.N; i++ {
			c.Set(a.kc.to(o.Key+i), o.Val+i, d)
		}
	case model.HBulkDel:
		for i := 0; i < o.N; i++ {
			c.Delete(a.kc.to(o.Key + i))
		}
	case model.HBulkGet:
		for i := 0; i < o.N; i++ {
			if v, ok := c.Get(a.kc.to(o.Key + i)); ok {
				r.Vis = append(r.Vis, model.KV{K: o.Key + i, V: v})
			}
		}
	case model.HAdvance:
		vs.NowNS += o.D
	case model.HGC:
		CollectAndChurn()
	default:
		r.Note = "unsupported"
	}
	return
}

func newCacheOf[K comparable](s Spec, kc codec[K]) API {
	a := &cacheOfAd[K]{spec: s, kc: kc, ss: &sinkSet{}}
	a.cb = a.mkCallback(false)
	a.cb2 = a.mkCallback(true)
	var cb cache.EvictedCallbackOf[K, int]
	if s.CB {
		cb = a.cb
	}
	switch s.Ctor {
	case "default":
		de := time.Duration(s.DefExp)
		if s.CB {
			a.c = cache.NewOfDefault[K, int](de, time.Duration(s.Cleanup), cb)
		} else {
			a.c = cache.NewOfDefault[K, int](de, time.Duration(s.Cleanup))
		}
	default:
		opts := []cache.OptionOf[K, int]{cache.WithCleanupIntervalOf[K, int](time.Duration(s.Cleanup))}
		if s.HasDef {
			opts = append(opts, cache.WithDefaultExpirationOf[K, int](time.Duration(s.DefExp)))
		}
		if s.CB {
			opts = append(opts, cache.WithEvictedCallbackOf[K, int](cb))
		}
		if s.Presize != 0 {
			opts = append(opts, cache.WithMinCapacityOf[K, int](s.Presize))
		}
		if r := int(s.OptPerm) % len(opts); r > 0 {
			opts = append(opts[r:len(opts):len(opts)], opts[:r]...)
		}
		var pre []cache.OptionOf[K, int]
		for _, sh := range s.Shadow {
			switch sh.Name {
			case "defexp":
				if s.HasDef {
					pre = append(pre, cache.WithDefaultExpirationOf[K, int](time.Duration(sh.D)))
				}
			case "cleanup":
				if sh.D <= 0 {
					pre = append(pre, cache.WithCleanupIntervalOf[K, int](time.Duration(sh.D)))
				}
			case "callback":
				if s.CB {
					pre = append(pre, cache.WithEvictedCallbackOf[K, int](a.cb2))
				}
			case "mincap":
				if s.Presize != 0 {
					pre = append(pre, cache.WithMinCapacityOf[K, int](int(sh.D)))
				}
			}
		}
		a.c = cache.NewOf[K, int](append(pre, opts...)...)
	}
	return a
}

// New builds the container described by s.
func New(s Spec) API {
	switch s.Kind {
	case "map":
		a := &mapAd{spec: s, kc: strCodecAlias(s.Alias)}
		if s.GrowOnly {
			opts := []func(*xsync.MapConfig){xsync.WithGrowOnly()}
			if s.Presize != 0 {
				opts = append(opts, xsync.WithPresize(s.Presize))
			}
			a.raw = xsync.NewMap(opts...)
			a.m = a.raw
			return a
		}
		if s.Presize != 0 {
			a.m = cache.NewMapPresized(s.Presize)
		} else {
			a.m = cache.NewMap()
		}
		if raw, ok := a.m.(*xsync.Map); ok {
			a.raw = raw
		}
		return a
	case "mapof":
		switch s.Key {
		case "string":
			return newMapOf[string](s, strCodec())
		case "struct":
			return newMapOf[SKey](s, structCodec())
		default:
			return newMapOf[int](s, intCodec())
		}
	case "cache":
		return newCache(s)
	case "cacheof":
		switch s.Key {
		case "string":
			return newCacheOf[string](s, strCodec())
		case "struct":
			return newCacheOf[SKey](s, structCodec())
		default:
			return newCacheOf[int](s, intCodec())
		}
	}
	panic("adapt.New: unknown kind " + s.Kind)
}

// EffDefault is the default expiration a freshly constructed cache must report.
func EffDefault(s Spec) int64 {
	d := model.NoExpiration
	if s.Ctor == "default" || s.HasDef {
		d = s.DefExp
		if d < 1 {
			d = model.NoExpiration
		}
	}
	return d
}

// Stray returns callbacks that fired outside any recorded call.
func Stray(a API) []model.KV {
	switch x := a.(type) {
	case *cacheAd:
		return x.ss.stray
	case interface{ strays() []model.KV }:
		return x.strays()
	}
	return nil
}

func (a *cacheOfAd[K]) strays() []model.KV { return a.ss.stray }

// SafeDo runs a.Do and converts a panic of the code under test into Res.Panic.
func SafeDo(a API, o *model.Op) (r model.Res) {
	defer func() {
		if p := recover(); p != nil {
			if vs.IsPoison(p) {
				panic(p)
			}
			r.Panic = fmt.Sprintf("%v\n%s", p, shortStack())
		}
	}()
	return a.Do(o)
}

func shortStack() string {
	s := string(debug.Stack())
	if len(s) > 1800 {
		s = s[:1800]
	}
	return s
}

// SortedCopy returns pairs sorted (for order-insensitive comparison).
func SortedCopy(x []model.KV) []model.KV {
	y := append([]model.KV(nil), x...)
	sort.Slice(y, func(i, j int) bool {
		if y[i].K != y[j].K {
			return y[i].K < y[j].K
		}
		return y[i].V < y[j].V
	})
	return y
}
