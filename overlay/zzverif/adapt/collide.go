package adapt

import (
	"strconv"
	"unsafe"

	"github.com/fufuok/cache/zzverif/vs"
)

//go:linkname runtime_memhash runtime.memhash
//go:noescape
func runtime_memhash(p unsafe.Pointer, h, s uintptr) uintptr

// CollidingStringKeys searches two key ids whose strings ("k<id>") fall into the same root bucket
// of a fresh 32-bucket string Map AND share the 20-bit top hash the Map packs next to each slot —
// the one-in-a-million coincidence its Load / doCompute must survive (they compare the key after
// the top-hash match). The table seed is known because the layout seed stream is: it is the
// first seed drawn after SetLayoutSeed. Generator steering only; no oracle depends on it.
func CollidingStringKeys(layout uint64, buckets int) (a, b int, ok bool) {
	vs.SetLayoutSeed(layout)
	var s1 uint32
	for s1 == 0 {
		s1 = vs.NextSeed32()
	}
	s2 := vs.NextSeed32()
	seed := uint64(s1)<<32 | uint64(s2)
	vs.SetLayoutSeed(layout) // rewind: the container built next draws the same seed
	type sig struct{ b, top uint64 }
	seen := map[sig]int{}
	for id := 5000; id < 5000+60000; id++ {
		s := "k" + strconv.Itoa(id)
		h := uint64(runtime_memhash(unsafe.Pointer(unsafe.StringData(s)), uintptr(seed), uintptr(len(s))))
		k := sig{h & uint64(buckets-1), h >> 44}
		if prev, dup := seen[k]; dup {
			return prev, id, true
		}
		seen[k] = id
	}
	return 0, 0, false
}
