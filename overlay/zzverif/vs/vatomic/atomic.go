// Package vatomic replaces sync/atomic in the instrumented scratch copy: every
// operation is a scheduling point, then the real atomic operation.
package vatomic

import (
	"sync/atomic"
	"unsafe"

	"github.com/fufuok/cache/zzverif/vs"
)

func pt(k vs.Kind, p unsafe.Pointer) { vs.Point(k, uintptr(p)) }

func LoadInt32(addr *int32) int32     { pt(vs.KLoad, unsafe.Pointer(addr)); return atomic.LoadInt32(addr) }
func LoadInt64(addr *int64) int64     { pt(vs.KLoad, unsafe.Pointer(addr)); return atomic.LoadInt64(addr) }
func LoadUint32(addr *uint32) uint32  { pt(vs.KLoad, unsafe.Pointer(addr)); return atomic.LoadUint32(addr) }
func LoadUint64(addr *uint64) uint64  { pt(vs.KLoad, unsafe.Pointer(addr)); return atomic.LoadUint64(addr) }
func LoadUintptr(addr *uintptr) uintptr {
	pt(vs.KLoad, unsafe.Pointer(addr))
	return atomic.LoadUintptr(addr)
}
func LoadPointer(addr *unsafe.Pointer) unsafe.Pointer {
	pt(vs.KLoad, unsafe.Pointer(addr))
	return atomic.LoadPointer(addr)
}

func StoreInt32(addr *int32, v int32)    { pt(vs.KStore, unsafe.Pointer(addr)); atomic.StoreInt32(addr, v) }
func StoreInt64(addr *int64, v int64)    { pt(vs.KStore, unsafe.Pointer(addr)); atomic.StoreInt64(addr, v) }
func StoreUint32(addr *uint32, v uint32) { pt(vs.KStore, unsafe.Pointer(addr)); atomic.StoreUint32(addr, v) }
func StoreUint64(addr *uint64, v uint64) { pt(vs.KStore, unsafe.Pointer(addr)); atomic.StoreUint64(addr, v) }
func StoreUintptr(addr *uintptr, v uintptr) {
	pt(vs.KStore, unsafe.Pointer(addr))
	atomic.StoreUintptr(addr, v)
}
func StorePointer(addr *unsafe.Pointer, v unsafe.Pointer) {
	pt(vs.KStore, unsafe.Pointer(addr))
	atomic.StorePointer(addr, v)
}

func AddInt32(addr *int32, d int32) int32     { pt(vs.KRMW, unsafe.Pointer(addr)); return atomic.AddInt32(addr, d) }
func AddInt64(addr *int64, d int64) int64     { pt(vs.KRMW, unsafe.Pointer(addr)); return atomic.AddInt64(addr, d) }
func AddUint32(addr *uint32, d uint32) uint32 { pt(vs.KRMW, unsafe.Pointer(addr)); return atomic.AddUint32(addr, d) }
func AddUint64(addr *uint64, d uint64) uint64 { pt(vs.KRMW, unsafe.Pointer(addr)); return atomic.AddUint64(addr, d) }
func AddUintptr(addr *uintptr, d uintptr) uintptr {
	pt(vs.KRMW, unsafe.Pointer(addr))
	return atomic.AddUintptr(addr, d)
}

func SwapInt32(addr *int32, v int32) int32     { pt(vs.KRMW, unsafe.Pointer(addr)); return atomic.SwapInt32(addr, v) }
func SwapInt64(addr *int64, v int64) int64     { pt(vs.KRMW, unsafe.Pointer(addr)); return atomic.SwapInt64(addr, v) }
func SwapUint32(addr *uint32, v uint32) uint32 { pt(vs.KRMW, unsafe.Pointer(addr)); return atomic.SwapUint32(addr, v) }
func SwapUint64(addr *uint64, v uint64) uint64 { pt(vs.KRMW, unsafe.Pointer(addr)); return atomic.SwapUint64(addr, v) }
func SwapUintptr(addr *uintptr, v uintptr) uintptr {
	pt(vs.KRMW, unsafe.Pointer(addr))
	return atomic.SwapUintptr(addr, v)
}
func SwapPointer(addr *unsafe.Pointer, v unsafe.Pointer) unsafe.Pointer {
	pt(vs.KRMW, unsafe.Pointer(addr))
	return atomic.SwapPointer(addr, v)
}

func CompareAndSwapInt32(addr *int32, o, n int32) bool {
	pt(vs.KRMW, unsafe.Pointer(addr))
	return atomic.CompareAndSwapInt32(addr, o, n)
}
func CompareAndSwapInt64(addr *int64, o, n int64) bool {
	pt(vs.KRMW, unsafe.Pointer(addr))
	return atomic.CompareAndSwapInt64(addr, o, n)
}
func CompareAndSwapUint32(addr *uint32, o, n uint32) bool {
	pt(vs.KRMW, unsafe.Pointer(addr))
	return atomic.CompareAndSwapUint32(addr, o, n)
}
func CompareAndSwapUint64(addr *uint64, o, n uint64) bool {
	pt(vs.KRMW, unsafe.Pointer(addr))
	return atomic.CompareAndSwapUint64(addr, o, n)
}
func CompareAndSwapUintptr(addr *uintptr, o, n uintptr) bool {
	pt(vs.KRMW, unsafe.Pointer(addr))
	return atomic.CompareAndSwapUintptr(addr, o, n)
}
func CompareAndSwapPointer(addr *unsafe.Pointer, o, n unsafe.Pointer) bool {
	pt(vs.KRMW, unsafe.Pointer(addr))
	return atomic.CompareAndSwapPointer(addr, o, n)
}

// Value mirrors atomic.Value.
type Value struct{ v atomic.Value }

func (x *Value) Load() interface{}   { pt(vs.KLoad, unsafe.Pointer(x)); return x.v.Load() }
func (x *Value) Store(val interface{}) { pt(vs.KStore, unsafe.Pointer(x)); x.v.Store(val) }
func (x *Value) Swap(n interface{}) interface{} {
	pt(vs.KRMW, unsafe.Pointer(x))
	return x.v.Swap(n)
}
func (x *Value) CompareAndSwap(o, n interface{}) bool {
	pt(vs.KRMW, unsafe.Pointer(x))
	return x.v.CompareAndSwap(o, n)
}

// Typed values (Go 1.19+).
type Int32 struct{ v atomic.Int32 }

func (x *Int32) Load() int32           { pt(vs.KLoad, unsafe.Pointer(x)); return x.v.Load() }
func (x *Int32) Store(n int32)         { pt(vs.KStore, unsafe.Pointer(x)); x.v.Store(n) }
func (x *Int32) Add(d int32) int32     { pt(vs.KRMW, unsafe.Pointer(x)); return x.v.Add(d) }
func (x *Int32) Swap(n int32) int32    { pt(vs.KRMW, unsafe.Pointer(x)); return x.v.Swap(n) }
func (x *Int32) CompareAndSwap(o, n int32) bool {
	pt(vs.KRMW, unsafe.Pointer(x))
	return x.v.CompareAndSwap(o, n)
}

type Int64 struct{ v atomic.Int64 }

func (x *Int64) Load() int64           { pt(vs.KLoad, unsafe.Pointer(x)); return x.v.Load() }
func (x *Int64) Store(n int64)         { pt(vs.KStore, unsafe.Pointer(x)); x.v.Store(n) }
func (x *Int64) Add(d int64) int64     { pt(vs.KRMW, unsafe.Pointer(x)); return x.v.Add(d) }
func (x *Int64) Swap(n int64) int64    { pt(vs.KRMW, unsafe.Pointer(x)); return x.v.Swap(n) }
func (x *Int64) CompareAndSwap(o, n int64) bool {
	pt(vs.KRMW, unsafe.Pointer(x))
	return x.v.CompareAndSwap(o, n)
}

type Uint32 struct{ v atomic.Uint32 }

func (x *Uint32) Load() uint32          { pt(vs.KLoad, unsafe.Pointer(x)); return x.v.Load() }
func (x *Uint32) Store(n uint32)        { pt(vs.KStore, unsafe.Pointer(x)); x.v.Store(n) }
func (x *Uint32) Add(d uint32) uint32   { pt(vs.KRMW, unsafe.Pointer(x)); return x.v.Add(d) }
func (x *Uint32) Swap(n uint32) uint32  { pt(vs.KRMW, unsafe.Pointer(x)); return x.v.Swap(n) }
func (x *Uint32) CompareAndSwap(o, n uint32) bool {
	pt(vs.KRMW, unsafe.Pointer(x))
	return x.v.CompareAndSwap(o, n)
}

type Uint64 struct{ v atomic.Uint64 }

func (x *Uint64) Load() uint64          { pt(vs.KLoad, unsafe.Pointer(x)); return x.v.Load() }
func (x *Uint64) Store(n uint64)        { pt(vs.KStore, unsafe.Pointer(x)); x.v.Store(n) }
func (x *Uint64) Add(d uint64) uint64   { pt(vs.KRMW, unsafe.Pointer(x)); return x.v.Add(d) }
func (x *Uint64) Swap(n uint64) uint64  { pt(vs.KRMW, unsafe.Pointer(x)); return x.v.Swap(n) }
func (x *Uint64) CompareAndSwap(o, n uint64) bool {
	pt(vs.KRMW, unsafe.Pointer(x))
	return x.v.CompareAndSwap(o, n)
}

type Uintptr struct{ v atomic.Uintptr }

func (x *Uintptr) Load() uintptr         { pt(vs.KLoad, unsafe.Pointer(x)); return x.v.Load() }
func (x *Uintptr) Store(n uintptr)       { pt(vs.KStore, unsafe.Pointer(x)); x.v.Store(n) }
func (x *Uintptr) Add(d uintptr) uintptr { pt(vs.KRMW, unsafe.Pointer(x)); return x.v.Add(d) }
func (x *Uintptr) Swap(n uintptr) uintptr { pt(vs.KRMW, unsafe.Pointer(x)); return x.v.Swap(n) }
func (x *Uintptr) CompareAndSwap(o, n uintptr) bool {
	pt(vs.KRMW, unsafe.Pointer(x))
	return x.v.CompareAndSwap(o, n)
}

type Bool struct{ v atomic.Bool }

func (x *Bool) Load() bool        { pt(vs.KLoad, unsafe.Pointer(x)); return x.v.Load() }
func (x *Bool) Store(n bool)      { pt(vs.KStore, unsafe.Pointer(x)); x.v.Store(n) }
func (x *Bool) Swap(n bool) bool  { pt(vs.KRMW, unsafe.Pointer(x)); return x.v.Swap(n) }
func (x *Bool) CompareAndSwap(o, n bool) bool {
	pt(vs.KRMW, unsafe.Pointer(x))
	return x.v.CompareAndSwap(o, n)
}

type Pointer[T any] struct{ v atomic.Pointer[T] }

func (x *Pointer[T]) Load() *T        { pt(vs.KLoad, unsafe.Pointer(x)); return x.v.Load() }
func (x *Pointer[T]) Store(n *T)      { pt(vs.KStore, unsafe.Pointer(x)); x.v.Store(n) }
func (x *Pointer[T]) Swap(n *T) *T    { pt(vs.KRMW, unsafe.Pointer(x)); return x.v.Swap(n) }
func (x *Pointer[T]) CompareAndSwap(o, n *T) bool {
	pt(vs.KRMW, unsafe.Pointer(x))
	return x.v.CompareAndSwap(o, n)
}
