package vs

// NonPreemptive runs threads to completion in the given order (Order[i] = i-th
// thread to run); a thread only loses the processor when it blocks, yields or
// finishes.
type NonPreemptive struct{ Order []int }

func (d *NonPreemptive) Choose(s *Sched, cur *Thread, why Why) *Thread {
	if why == AtPoint && cur != nil && cur.Runnable() {
		return cur
	}
	for _, id := range d.Order {
		if id < len(s.Threads) {
			t := s.Threads[id]
			if t.Runnable() && !(why == Yield && t == cur) {
				return t
			}
		}
	}
	if why == Yield && cur != nil && cur.Runnable() {
		return cur
	}
	return nil
}

// Change is a PCT priority change point: when Thread reaches its Step-th
// scheduling point it drops to the lowest priority.
type Change struct {
	Thread int `json:"t"`
	Step   int `json:"k"`
	// Kind > 0: the change point is the Step-th scheduling point OF THAT KIND (e.g. the first
	// Cond.Wait) instead of the Step-th point overall.
	Kind int `json:"kind,omitempty"`
}

// PCT is the explicit priority-based decider. Prio[i] is the initial priority
// of thread i (higher runs first). At a change point, and on every yield, the
// running thread drops below everybody else. With one change point this is
// exactly "preempt thread t at its k-th point until all others have finished or
// blocked".
type PCT struct {
	Prio    []int
	Changes []Change
	low     int
	inited  bool
}

func (d *PCT) init(s *Sched) {
	d.inited = true
	d.low = -1
	for i, t := range s.Threads {
		if i < len(d.Prio) {
			t.Prio = d.Prio[i]
		} else {
			t.Prio = 0
		}
	}
}

func (d *PCT) Choose(s *Sched, cur *Thread, why Why) *Thread {
	if !d.inited {
		d.init(s)
	}
	if cur != nil {
		switch why {
		case AtPoint:
			for _, c := range d.Changes {
				if c.Thread != cur.ID {
					continue
				}
				hit := false
				if c.Kind > 0 {
					hit = int(cur.LastKind) == c.Kind && c.Kind < len(cur.KindCount) && cur.KindCount[c.Kind] == c.Step
				} else {
					hit = c.Step == cur.Steps
				}
				if hit {
					cur.Prio = d.low
					d.low--
					break
				}
			}
		case Yield:
			cur.Prio = d.low
			d.low--
		}
	}
	var best *Thread
	for _, t := range s.Threads {
		if !t.Runnable() {
			continue
		}
		if best == nil || t.Prio > best.Prio {
			best = t
		}
	}
	return best
}

// RandomWalk switches to a uniformly chosen runnable thread with probability
// 1/Den at every point, driven by its own 64-bit stream (drawn by the generator).
type RandomWalk struct {
	State uint64
	Den   uint64
}

func (d *RandomWalk) next() uint64 {
	// splitmix64
	d.State += 0x9e3779b97f4a7c15
	z := d.State
	z = (z ^ (z >> 30)) * 0xbf58476d1ce4e5b9
	z = (z ^ (z >> 27)) * 0x94d049bb133111eb
	return z ^ (z >> 31)
}

func (d *RandomWalk) Choose(s *Sched, cur *Thread, why Why) *Thread {
	if why == AtPoint && cur != nil && cur.Runnable() {
		if d.Den <= 1 || d.next()%d.Den != 0 {
			return cur
		}
	}
	var rs []*Thread
	for _, t := range s.Threads {
		if t.Runnable() && !(why == Yield && t == cur) {
			rs = append(rs, t)
		}
	}
	if len(rs) == 0 {
		if cur != nil && cur.Runnable() {
			return cur
		}
		return nil
	}
	return rs[d.next()%uint64(len(rs))]
}

// Stall is the C16 decider: thread W (id 0) runs alone until it reaches its
// ParkStep-th point (ParkStep<0: until it calls vs.Park(); ParkStep==0: W never
// starts before R), then stays off the processor while the reader R (id 1) runs
// alone. If R ever blocks or yields while W is stalled, or passes more than
// MaxSteps points, the run fails with kind "reader-waited". After R has
// finished W is released and runs to completion.
type Stall struct {
	ParkStep int
	MaxSteps int
	Parked   bool // W reached its park point
	RDone    bool
	WDoneAtPark bool // W finished before reaching the park point
}

func (d *Stall) Choose(s *Sched, cur *Thread, why Why) *Thread {
	w, r := s.Threads[0], s.Threads[1]
	if !d.Parked {
		if cur == w {
			if why == AtPoint {
				if (d.ParkStep >= 0 && w.Steps == d.ParkStep) || (d.ParkStep < 0 && w.LastKind == KPark) {
					d.Parked = true
				} else {
					return w
				}
			} else if why == Finished {
				d.Parked = true
				d.WDoneAtPark = true
			} else if why == Yield {
				// W spinning before its park point with nobody else active: cannot happen
				// (nobody holds a lock); let it continue
				return w
			} else {
				// W blocked before park point although it runs alone
				return nil
			}
		} else if cur == nil {
			if d.ParkStep == 0 {
				d.Parked = true
			} else {
				return w
			}
		}
	}
	// W is parked (or finished). R runs alone until done.
	if !r.Done() {
		if cur == r {
			switch why {
			case Yield:
				if !w.Done() {
					s.Fail("reader-waited", "reader yielded (spun) while the writer was stalled")
				}
				return r
			case Blocked:
				if !w.Done() {
					s.Fail("reader-waited", "reader blocked on a lock or condition while the writer was stalled")
				}
				return w
			case AtPoint:
				if d.MaxSteps > 0 && r.Steps > d.MaxSteps {
					s.Fail("reader-waited", "reader exceeded its own-step bound while the writer was stalled")
				}
				return r
			}
		}
		if r.Runnable() {
			return r
		}
	}
	d.RDone = true
	if w.Runnable() {
		return w
	}
	return nil
}
