// Package vchan receives the channel operations of the instrumented scratch copy that stand outside select
// statements: `<-ch`, `v, ok := <-ch`, `ch <- v`, `close(ch)`. Inactive scheduler (or a goroutine the scheduler
// does not own): the plain operation. Active: a receive that cannot proceed parks the thread in the scheduler
// (vs.Block) until a close or a buffered send on that channel wakes it, so that a library which signals through
// channels (for example "closed when the resize is over") is scheduled cooperatively like one that uses sync.Cond.
// Unbuffered rendezvous and select statements stay native; a controlled thread that blocks there is recognised by
// the scheduler's watchdog and the run ends inconclusive, never with a verdict.
package vchan

import (
	"unsafe"

	"github.com/fufuok/cache/zzverif/vs"
)

func addr(ch interface{}) uintptr { return (*[2]uintptr)(unsafe.Pointer(&ch))[1] }

func Recv[T any](ch <-chan T) T {
	v, _ := Recv2(ch)
	return v
}

func Recv2[T any](ch <-chan T) (T, bool) {
	if !vs.Active() {
		v, ok := <-ch
		return v, ok
	}
	a := addr(ch)
	vs.Point(vs.KLock, a)
	for {
		select {
		case v, ok := <-ch:
			if ok {
				vs.Wake(a) // a buffered sender may proceed
			}
			return v, ok
		default:
		}
		vs.Block(a)
	}
}

func Send[T any](ch chan<- T, v T) {
	if !vs.Active() || cap(ch) == 0 {
		ch <- v // unbuffered rendezvous stays native
		return
	}
	a := addr(ch)
	vs.Point(vs.KUnlock, a)
	for {
		select {
		case ch <- v:
			vs.Wake(a)
			return
		default:
		}
		vs.Block(a)
	}
}

func Close[T any](ch chan<- T) {
	if !vs.Active() {
		close(ch)
		return
	}
	a := addr(ch)
	vs.Point(vs.KUnlock, a)
	close(ch)
	vs.Wake(a)
}
