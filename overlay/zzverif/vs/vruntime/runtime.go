// Package vruntime replaces runtime.Gosched (a yield under the scheduler) and
// the linknamed runtime.fastrand (pinned per case when a layout seed is set).
package vruntime

import (
	"runtime"
	_ "unsafe"

	"github.com/fufuok/cache/zzverif/vs"
)

func Gosched() {
	if !vs.Active() {
		runtime.Gosched()
		return
	}
	vs.Point(vs.KYield, 0)
}

//go:linkname runtime_fastrand runtime.fastrand
func runtime_fastrand() uint32

func Fastrand() uint32 {
	if vs.SeedOn {
		return vs.NextSeed32()
	}
	return runtime_fastrand()
}
