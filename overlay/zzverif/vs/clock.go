package vs

// Virtual clock. When ClockOn is set, vtime.Now() returns Unix(0, NowNS) and
// the clock never advances by itself.
var (
	ClockOn bool
	NowNS   int64
	// TickOn: every clock read returns a fresh, strictly increasing instant (the clock advances by
	// one tick per read) and is recorded on the reading virtual thread. This lets generated
	// schedules interleave the passage of time with the steps of a call.
	TickOn bool
)

// ReadClock is what vtime.Now() is made of while the virtual clock is on.
func ReadClock() int64 {
	v := NowNS
	if TickOn {
		NowNS++
		if t := Cur(); t != nil {
			t.ClockReads = append(t.ClockReads, v)
		}
	}
	return v
}

// Epoch is the instant the virtual clock starts at in every case
// (2023-11-14T22:13:20Z), far from 0 and far from overflow.
const Epoch int64 = 1700000000 * 1000000000

// Layout seed stream: when SeedOn is set, vruntime.Fastrand() draws from a
// splitmix64 stream so that table hash seeds are a function of the case.
var (
	SeedOn    bool
	seedState uint64
)

func SetLayoutSeed(s uint64) { SeedOn = true; seedState = s }

func NextSeed32() uint32 {
	seedState += 0x9e3779b97f4a7c15
	z := seedState
	z = (z ^ (z >> 30)) * 0xbf58476d1ce4e5b9
	z = (z ^ (z >> 27)) * 0x94d049bb133111eb
	z ^= z >> 31
	return uint32(z >> 16)
}
