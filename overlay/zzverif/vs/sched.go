// Package vs is the cooperative deterministic scheduler and the virtual clock
// that the shim packages (vatomic, vsync, vruntime, vtime) call into.
//
// Inactive (no Run in progress): every entry point is a cheap pass-through.
// Active: exactly one virtual thread runs at a time; every shim call is a
// scheduling point whose outcome comes from a Decider, i.e. from generated data.
//
// Go 1.19 dialect (the scratch module keeps the repository's go directive).
package vs

import (
	"context"
	"fmt"
	"os"
	"runtime"
	"runtime/debug"
	"runtime/pprof"
	"strconv"
	"strings"
	"sync"
	"time"
	"unsafe"
)

// StallSeconds is the wall-clock watchdog of a controlled run (see Run).
var StallSeconds = 45

var watchdogOnce sync.Once

func startWatchdog() { watchdogOnce.Do(func() { go watchdog() }) }

// watchdog looks at the run in progress once a second (racy reads of two words; it only needs to see change).
func watchdog() {
	var cur *Sched
	last, still := -1, 0
	for range time.Tick(time.Second) {
		s := active
		if s == nil || s != cur || s.total != last {
			cur, still = s, 0
			if s != nil {
				last = s.total
			}
			continue
		}
		if still++; still >= StallSeconds {
			t := s.running
			id, op := -1, -1
			if t != nil {
				id, op = t.ID, t.OpIndex
			}
			if st := nativelyBlocked(); st != "" {
				// the running thread is not computing: it waits on a primitive the rewriter does not redirect (a
				// channel operation, a select, ...) which only another controlled thread could complete - but
				// that thread never gets the token. This is a limit of the HARNESS, not a finding: inconclusive.
				fmt.Printf("INCONCLUSIVE (harness limit): controlled thread %d (op %d) is blocked in the Go runtime [%s] on a primitive the scheduler does not control; this implementation cannot be scheduled cooperatively. No verdict.\n", id, op, st)
				os.Exit(3)
			}
			s.fail = &Failure{Kind: "no-progress", Detail: fmt.Sprintf("thread %d (op %d) has been executing for %d s of wall-clock time without reaching any scheduling point (after %d points in total): a loop without synchronisation that does not terminate", id, op, StallSeconds, s.total)}
			s.poisoned = true
			close(s.stallCh)
			cur, still = nil, 0
		}
	}
}

// nativelyBlocked inspects the goroutines of the process: if no goroutine that runs a controlled thread is
// running or runnable, the stalled thread is parked inside the Go runtime; its wait state is returned.
func nativelyBlocked() string {
	buf := make([]byte, 4<<20)
	buf = buf[:runtime.Stack(buf, true)]
	state := ""
	for _, g := range strings.Split(string(buf), "\n\n") {
		if !strings.Contains(g, "zzverif/vs.(*Sched).body") {
			continue
		}
		i, j := strings.Index(g, "["), strings.Index(g, "]")
		if i < 0 || j < i {
			continue
		}
		st := g[i+1 : j]
		if strings.HasPrefix(st, "running") || strings.HasPrefix(st, "runnable") {
			return "" // somebody is computing: a genuine loop
		}
		// parked controlled threads wait for their token inside the scheduler: skip those
		if strings.Contains(g, "zzverif/vs.(*Sched).transfer") || strings.Contains(g, "zzverif/vs.Block") || strings.Contains(g, "zzverif/vs.CondBlock") || !strings.Contains(g, "github.com/fufuok/cache.") && !strings.Contains(g, "internal/xsync.") {
			continue
		}
		state = st
	}
	return state
}

// ForeignCalls counts shim calls made by goroutines the scheduler does not own while a run was active
// (they pass through to the real primitives).
var ForeignCalls int64

// Why tells a Decider for what reason it is consulted.
type Why uint8

const (
	AtPoint  Why = iota // running thread is at a scheduling point; may continue
	Yield               // running thread called Gosched; somebody else should run if possible
	Blocked             // running thread cannot continue (mutex / cond)
	Finished            // running thread has finished its program
	Start               // nothing runs yet
)

// Kind classifies a scheduling point (for statistics and park rules only).
type Kind uint8

const (
	KLoad Kind = iota
	KStore
	KRMW
	KLock
	KUnlock
	KCondWait
	KCondSignal
	KYield
	KPark // vs.Park(): explicit park point callable from user functions
	KOther
)

type tstate uint8

const (
	runnable tstate = iota
	blocked
	done
)

// Thread is a virtual thread.
type Thread struct {
	ID        int
	Steps     int // scheduling points passed so far
	Prio      int
	Blocks    int // times it became blocked
	Yields    int
	LastKind  Kind
	KindCount [12]int // points passed per kind
	state     tstate
	blockAddr uintptr
	wake      chan struct{}
	fn        func()
	OpIndex   int // maintained by harness: index of op in progress (-1 = none)
	label     unsafe.Pointer // this goroutine's profiler-label pointer (identity)
	labelled  chan struct{}
	ClockReads []int64 // instants this thread read from the ticking virtual clock (harness resets per call)
}

func (t *Thread) Runnable() bool { return t.state == runnable }
func (t *Thread) Done() bool     { return t.state == done }
func (t *Thread) IsBlocked() bool { return t.state == blocked }

// Decider picks the next thread to run. It must return a runnable thread, or
// nil if it wants the scheduler to pick the lowest-id runnable thread. cur is
// nil for Start.
type Decider interface {
	Choose(s *Sched, cur *Thread, why Why) *Thread
}

// Failure describes why a controlled run was aborted.
type Failure struct {
	Kind   string // "deadlock" | "no-progress" | "panic" | "reader-waited"
	Detail string
}

func (f *Failure) Error() string { return f.Kind + ": " + f.Detail }

// Result of a controlled run.
type Result struct {
	Fail        *Failure
	Steps       []int // per thread
	Total       int
	Switches    int // preemptive context switches (running thread was at a point and another was chosen)
	AllSwitches int
	Blocks      int
	CondWaits   int
	Broadcasts  int
	Yields      int
}

type poisonT struct{}

// Sched is one controlled run.
type Sched struct {
	Threads   []*Thread
	running   *Thread
	decider   Decider
	total     int
	budget    int
	fail      *Failure
	poisoned  bool
	doneCh    chan struct{}
	stallCh   chan struct{}
	switches  int
	allSw     int
	blocks    int
	condWaits int
	bcasts    int
	yields    int
	condQ     map[uintptr][]*Thread
	// FailHook lets a decider flag a failure (e.g. "reader waited").
}

var active *Sched

// Active reports whether a controlled run is in progress AND the caller is its running thread. A goroutine the
// scheduler does not own (the runtime's finalizer goroutine, a timer callback, a helper the library started
// before the run) gets false and therefore the real primitives: it must never be mistaken for the running
// thread. Goroutines are told apart by their profiler-label pointer, which each controlled thread sets to a
// value of its own when it starts (reading it costs a few nanoseconds).
func Active() bool {
	s := active
	if s == nil {
		return false
	}
	t := s.running
	return t != nil && t.label != nil && runtime_getProfLabel() == t.label
}

//go:linkname runtime_getProfLabel runtime/pprof.runtime_getProfLabel
func runtime_getProfLabel() unsafe.Pointer

// Cur returns the running virtual thread (nil when inactive).
func Cur() *Thread {
	if s := active; s != nil {
		if t := s.running; t != nil && runtime_getProfLabel() == t.label {
			return t
		}
	}
	return nil
}

var stamp int64

// Stamp returns a strictly increasing event number. Under the scheduler only
// one thread runs at a time, so stamps are a total order consistent with the
// execution.
func Stamp() int64 {
	stamp++
	return stamp
}

// Run executes fns as virtual threads under decider. budget is the maximum
// number of scheduling points over all threads. It must be called from a
// goroutine that is not itself a virtual thread, with no other Run active.
func Run(decider Decider, budget int, fns ...func()) *Result {
	if active != nil {
		panic("vs.Run: nested run")
	}
	s := &Sched{decider: decider, budget: budget, doneCh: make(chan struct{}), stallCh: make(chan struct{})}
	for i, fn := range fns {
		t := &Thread{ID: i, wake: make(chan struct{}, 1), fn: fn, OpIndex: -1, labelled: make(chan struct{})}
		s.Threads = append(s.Threads, t)
	}
	active = s
	for _, t := range s.Threads {
		go s.body(t)
	}
	for _, t := range s.Threads {
		<-t.labelled
	}
	first := s.pick(nil, Start)
	if first == nil {
		close(s.doneCh)
	} else {
		s.running = first
		first.wake <- struct{}{}
	}
	// Wall-clock watchdog (one process-wide goroutine, see watchdog): a thread that executes for StallSeconds
	// without reaching a single scheduling point is in a loop that contains no synchronisation at all - the step
	// budget cannot see it. The run is abandoned (the goroutine cannot be stopped; it is poisoned and unwinds at
	// its next scheduling point, if it ever reaches one).
	startWatchdog()
	select {
	case <-s.doneCh:
	case <-s.stallCh:
	}
	active = nil
	r := &Result{Fail: s.fail, Total: s.total, Switches: s.switches, AllSwitches: s.allSw,
		Blocks: s.blocks, CondWaits: s.condWaits, Broadcasts: s.bcasts, Yields: s.yields}
	for _, t := range s.Threads {
		r.Steps = append(r.Steps, t.Steps)
	}
	return r
}

func (s *Sched) body(t *Thread) {
	pprof.SetGoroutineLabels(pprof.WithLabels(context.Background(), pprof.Labels("vs-thread", strconv.Itoa(t.ID))))
	t.label = runtime_getProfLabel()
	close(t.labelled)
	<-t.wake
	defer func() {
		if r := recover(); r != nil {
			if _, ok := r.(poisonT); !ok && s.fail == nil {
				st := string(debug.Stack())
				s.fail = &Failure{Kind: "panic", Detail: fmt.Sprintf("thread %d: %v\n%s", t.ID, r, trimStack(st))}
			}
		}
		s.finish(t)
	}()
	if s.poisoned {
		return
	}
	t.fn()
}

func trimStack(st string) string {
	lines := strings.Split(st, "\n")
	var out []string
	for _, l := range lines {
		if strings.Contains(l, "zzverif/vs.") && len(out) < 4 {
			continue
		}
		out = append(out, l)
		if len(out) > 40 {
			break
		}
	}
	return strings.Join(out, "\n")
}

// finish is called on t's goroutine when its function returned or unwound.
func (s *Sched) finish(t *Thread) {
	t.state = done
	if s.fail != nil && !s.poisoned {
		s.poisoned = true
	}
	if s.poisoned {
		// release the next unfinished thread so that it unwinds too
		for _, o := range s.Threads {
			if o.state != done {
				o.state = runnable
				s.running = o
				o.wake <- struct{}{}
				return
			}
		}
		close(s.doneCh)
		return
	}
	next := s.pick(t, Finished)
	if s.fail != nil {
		s.finish(t)
		return
	}
	if next == nil {
		all := true
		for _, o := range s.Threads {
			if o.state != done {
				all = false
			}
		}
		if all {
			close(s.doneCh)
			return
		}
		s.deadlock()
		s.finish(t)
		return
	}
	s.allSw++
	s.running = next
	next.wake <- struct{}{}
}

func (s *Sched) deadlock() {
	var sb strings.Builder
	for _, o := range s.Threads {
		if o.state == blocked {
			fmt.Fprintf(&sb, "thread %d blocked on %#x (op %d, after %d points, last kind %d); ", o.ID, o.blockAddr, o.OpIndex, o.Steps, o.LastKind)
		}
	}
	s.fail = &Failure{Kind: "deadlock", Detail: sb.String()}
}

// pick consults the decider and validates its answer.
func (s *Sched) pick(cur *Thread, why Why) *Thread {
	n := s.decider.Choose(s, cur, why)
	if n != nil && n.state == runnable {
		return n
	}
	if (why == AtPoint || why == Yield) && cur != nil && cur.state == runnable && n == nil {
		// decider abstained: fall through to lowest id runnable
	}
	for _, o := range s.Threads {
		if o.state == runnable {
			return o
		}
	}
	return nil
}

// Fail lets a decider or harness code running on a virtual thread abort the run.
func (s *Sched) Fail(kind, detail string) {
	if s.fail == nil {
		s.fail = &Failure{Kind: kind, Detail: detail}
	}
}

// transfer hands the token from t (the running thread) to next and waits until
// t is scheduled again. Panics with poison if the run was aborted meanwhile.
func (s *Sched) transfer(t, next *Thread) {
	s.allSw++
	s.running = next
	next.wake <- struct{}{}
	<-t.wake
	if s.poisoned {
		panic(poisonT{})
	}
}

func (s *Sched) abort(t *Thread) {
	// called on the running thread after s.fail has been set
	s.poisoned = true
	panic(poisonT{})
}

// Point is a scheduling point of the given kind. No-op when inactive or called from a foreign goroutine.
func Point(k Kind, addr uintptr) {
	s := active
	if s == nil {
		return
	}
	t := s.running
	if t == nil || runtime_getProfLabel() != t.label {
		ForeignCalls++
		return
	}
	if s.poisoned {
		// unwinding: never block again
		return
	}
	t.Steps++
	t.LastKind = k
	if int(k) < len(t.KindCount) {
		t.KindCount[k]++
	}
	s.total++
	if s.total > s.budget {
		var sb strings.Builder
		for _, o := range s.Threads {
			fmt.Fprintf(&sb, "thread %d: state=%d steps=%d yields=%d blocks=%d op=%d lastkind=%d; ", o.ID, o.state, o.Steps, o.Yields, o.Blocks, o.OpIndex, o.LastKind)
		}
		s.fail = &Failure{Kind: "no-progress", Detail: fmt.Sprintf("step budget %d exhausted: %s", s.budget, sb.String())}
		s.abort(t)
	}
	why := AtPoint
	if k == KYield {
		why = Yield
		t.Yields++
		s.yields++
	}
	next := s.pick(t, why)
	if s.fail != nil {
		s.abort(t)
	}
	if next != nil && next != t {
		if why == AtPoint {
			s.switches++
		}
		s.transfer(t, next)
	}
}

// Park is an explicit scheduling point that user functions handed to the
// library may call (C16: a writer stalled inside its user function).
func Park() { Point(KPark, 0) }

// Block marks the running thread blocked on addr and runs somebody else. It
// returns when the thread has been woken (Wake(addr)) and scheduled again.
func Block(addr uintptr) {
	s := active
	if s == nil {
		panic("vs.Block: inactive")
	}
	if s.poisoned {
		panic(poisonT{})
	}
	t := s.running
	t.state = blocked
	t.blockAddr = addr
	t.Blocks++
	s.blocks++
	next := s.pick(t, Blocked)
	if s.fail != nil {
		t.state = runnable
		s.abort(t)
	}
	if next == nil {
		s.deadlock()
		t.state = runnable
		s.abort(t)
	}
	s.transfer(t, next)
}

// Wake makes every thread blocked on addr runnable again.
func Wake(addr uintptr) {
	s := active
	if s == nil {
		return
	}
	for _, o := range s.Threads {
		if o.state == blocked && o.blockAddr == addr {
			o.state = runnable
		}
	}
}

// CondWait implements the blocking half of Cond.Wait: the caller has already
// been registered with CondRegister and has released L.
func CondRegister(addr uintptr) {
	s := active
	if s.condQ == nil {
		s.condQ = map[uintptr][]*Thread{}
	}
	s.condQ[addr] = append(s.condQ[addr], s.running)
	s.condWaits++
}

// CondBlock blocks the running thread until it has been signalled. A signal
// that arrived between CondRegister and CondBlock is not lost.
func CondBlock(addr uintptr) {
	s := active
	t := s.running
	for _, w := range s.condQ[addr] {
		if w == t {
			// still registered: nobody signalled yet
			Block(addr | 1)
			return
		}
	}
}

// CondSignal wakes one (all=false) or all registered waiters.
func CondSignal(addr uintptr, all bool) {
	s := active
	if s == nil {
		return
	}
	s.bcasts++
	q := s.condQ[addr]
	if len(q) == 0 {
		return
	}
	n := 1
	if all {
		n = len(q)
	}
	for _, w := range q[:n] {
		if w.state == blocked && w.blockAddr == addr|1 {
			w.state = runnable
		}
	}
	s.condQ[addr] = append([]*Thread(nil), q[n:]...)
}

// Counters exposed to deciders / harness while running.
func (s *Sched) Total() int      { return s.total }
func (s *Sched) Running() *Thread { return s.running }

// IsPoison reports whether a recovered panic value is the scheduler's own
// unwinding signal (harness code that recovers must re-panic it).
func IsPoison(p interface{}) bool { _, ok := p.(poisonT); return ok }
