// Package vtime replaces the clock-reading and timer-creating functions of
// package time. With the virtual clock on, Now is a variable the harness owns
// and tickers/timers never fire (janitor passes are issued explicitly).
package vtime

import (
	"time"

	"github.com/fufuok/cache/zzverif/vs"
)

func Now() time.Time {
	if vs.ClockOn {
		return time.Unix(0, vs.ReadClock())
	}
	return time.Now()
}

func Since(t time.Time) time.Duration { return Now().Sub(t) }
func Until(t time.Time) time.Duration { return t.Sub(Now()) }

type Ticker struct {
	C    <-chan time.Time
	real *time.Ticker
}

func NewTicker(d time.Duration) *Ticker {
	if vs.ClockOn {
		if d <= 0 {
			panic("non-positive interval for NewTicker")
		}
		return &Ticker{C: make(chan time.Time)}
	}
	r := time.NewTicker(d)
	return &Ticker{C: r.C, real: r}
}

func (t *Ticker) Stop() {
	if t.real != nil {
		t.real.Stop()
	}
}

func (t *Ticker) Reset(d time.Duration) {
	if t.real != nil {
		t.real.Reset(d)
	}
}

func Tick(d time.Duration) <-chan time.Time {
	if d <= 0 {
		return nil
	}
	return NewTicker(d).C
}

type Timer struct {
	C    <-chan time.Time
	real *time.Timer
}

func NewTimer(d time.Duration) *Timer {
	if vs.ClockOn {
		return &Timer{C: make(chan time.Time)}
	}
	r := time.NewTimer(d)
	return &Timer{C: r.C, real: r}
}

func (t *Timer) Stop() bool {
	if t.real != nil {
		return t.real.Stop()
	}
	return true
}

func (t *Timer) Reset(d time.Duration) bool {
	if t.real != nil {
		return t.real.Reset(d)
	}
	return true
}

func After(d time.Duration) <-chan time.Time { return NewTimer(d).C }

func AfterFunc(d time.Duration, f func()) *Timer {
	if vs.ClockOn {
		return &Timer{}
	}
	return &Timer{real: time.AfterFunc(d, f)}
}

// Sleep under the virtual clock advances nothing and returns at once.
func Sleep(d time.Duration) {
	if vs.ClockOn {
		return
	}
	time.Sleep(d)
}
