// Package vsync replaces sync.{Mutex,RWMutex,Cond,NewCond,Locker} in the
// instrumented scratch copy. Inactive scheduler: real primitives. Active:
// cooperative blocking through vs.Block/vs.Wake.
package vsync

import (
	"sync"
	"unsafe"

	"github.com/fufuok/cache/zzverif/vs"
)

type Locker = sync.Locker

// Mutex is exactly 8 bytes (the library's bucketOf pad arithmetic needs that).
type Mutex struct{ m sync.Mutex }

func (m *Mutex) Lock() {
	if !vs.Active() {
		m.m.Lock()
		return
	}
	a := uintptr(unsafe.Pointer(m))
	vs.Point(vs.KLock, a)
	for !m.m.TryLock() {
		vs.Block(a)
	}
}

func (m *Mutex) TryLock() bool {
	if vs.Active() {
		vs.Point(vs.KLock, uintptr(unsafe.Pointer(m)))
	}
	return m.m.TryLock()
}

func (m *Mutex) Unlock() {
	if !vs.Active() {
		m.m.Unlock()
		return
	}
	a := uintptr(unsafe.Pointer(m))
	vs.Point(vs.KUnlock, a)
	m.m.Unlock()
	vs.Wake(a)
}

// RWMutex (not used by the pinned tree; provided so that an edited tree that
// starts using one is still controlled).
type RWMutex struct{ m sync.RWMutex }

func (m *RWMutex) Lock() {
	if !vs.Active() {
		m.m.Lock()
		return
	}
	a := uintptr(unsafe.Pointer(m))
	vs.Point(vs.KLock, a)
	for !m.m.TryLock() {
		vs.Block(a)
	}
}
func (m *RWMutex) Unlock() {
	if !vs.Active() {
		m.m.Unlock()
		return
	}
	a := uintptr(unsafe.Pointer(m))
	vs.Point(vs.KUnlock, a)
	m.m.Unlock()
	vs.Wake(a)
}
func (m *RWMutex) RLock() {
	if !vs.Active() {
		m.m.RLock()
		return
	}
	a := uintptr(unsafe.Pointer(m))
	vs.Point(vs.KLock, a)
	for !m.m.TryRLock() {
		vs.Block(a)
	}
}
func (m *RWMutex) RUnlock() {
	if !vs.Active() {
		m.m.RUnlock()
		return
	}
	a := uintptr(unsafe.Pointer(m))
	vs.Point(vs.KUnlock, a)
	m.m.RUnlock()
	vs.Wake(a)
}
func (m *RWMutex) TryLock() bool  { return m.m.TryLock() }
func (m *RWMutex) TryRLock() bool { return m.m.TryRLock() }
func (m *RWMutex) RLocker() Locker { return (*rlocker)(m) }

type rlocker RWMutex

func (r *rlocker) Lock()   { (*RWMutex)(r).RLock() }
func (r *rlocker) Unlock() { (*RWMutex)(r).RUnlock() }

// Cond mirrors sync.Cond. It may be copied before first use (the library does
// `m.resizeCond = *sync.NewCond(&m.resizeMu)`): identity is the inner pointer.
type Cond struct {
	L    Locker
	real *sync.Cond
}

func NewCond(l Locker) *Cond { return &Cond{L: l, real: sync.NewCond(l)} }

func (c *Cond) id() uintptr { return uintptr(unsafe.Pointer(c.real)) &^ 1 }

// Wait: the waiter is registered BEFORE L is released (the order the real
// sync.Cond guarantees), so a Broadcast issued by whoever takes L next is never
// lost.
func (c *Cond) Wait() {
	if !vs.Active() {
		c.real.Wait()
		return
	}
	a := c.id()
	vs.Point(vs.KCondWait, a)
	vs.CondRegister(a)
	c.L.Unlock()
	vs.CondBlock(a)
	c.L.Lock()
}

func (c *Cond) Broadcast() {
	if !vs.Active() {
		c.real.Broadcast()
		return
	}
	a := c.id()
	vs.Point(vs.KCondSignal, a)
	vs.CondSignal(a, true)
}

func (c *Cond) Signal() {
	if !vs.Active() {
		c.real.Signal()
		return
	}
	a := c.id()
	vs.Point(vs.KCondSignal, a)
	vs.CondSignal(a, false)
}
