#!/usr/bin/env python3
"""bin/check <property> [--tier quick|thorough] [--src DIR] [--replay FILE]

Builds a scratch copy of the working tree of --src (default /repo), overlays the
verification packages, instruments it (instr flavour), runs the property's
generated-input search in parallel shards, merges their statistics into
evidence/<id>.json and maps the outcome to the exit codes of the interface:
0 held / 1 VIOLATION line / 2 inconclusive (infrastructure).
Python stdlib only.
"""
import argparse, json, os, shutil, subprocess, sys, tempfile, time, hashlib, glob, signal

VERIF = os.path.dirname(os.path.dirname(os.path.abspath(__file__)))
sys.path.insert(0, os.path.join(VERIF, "driver"))
from props import PROPS, COMMON_ASSUMPTIONS  # noqa: E402

GOENV = {"GOFLAGS": "-mod=mod", "GOPROXY": "off", "GOSUMDB": "off", "GOTOOLCHAIN": "local"}


def log(*a):
    print(*a, file=sys.stderr, flush=True)


def splitmix(x):
    x = (x + 0x9E3779B97F4A7C15) & 0xFFFFFFFFFFFFFFFF
    z = x
    z = ((z ^ (z >> 30)) * 0xBF58476D1CE4E5B9) & 0xFFFFFFFFFFFFFFFF
    z = ((z ^ (z >> 27)) * 0x94D049BB133111EB) & 0xFFFFFFFFFFFFFFFF
    return z ^ (z >> 31)


def shard_seed(verif_seed, prop, i):
    h = int(hashlib.sha256(prop.encode()).hexdigest()[:12], 16)
    s = splitmix(verif_seed * 1000003 + h * 131 + i)
    return (s % 2147483646) + 1  # never 0 (0 = random for rapid)


def env_with(extra):
    e = dict(os.environ)
    e.update(GOENV)
    e.update(extra)
    return e


def ensure_rewriter():
    out = os.path.join(VERIF, "bin", "vrewrite")
    src = os.path.join(VERIF, "tools", "rewrite")
    if os.path.exists(out) and os.path.getmtime(out) >= os.path.getmtime(os.path.join(src, "main.go")):
        return out
    r = subprocess.run(["go", "build", "-o", out, "."], cwd=src, env=env_with({}), capture_output=True, text=True)
    if r.returncode != 0:
        log("cannot build rewriter:\n" + r.stderr)
        sys.exit(2)
    return out


def make_scratch(src, flavour, prop):
    base = os.environ.get("TMPDIR", "/tmp")
    scratch = tempfile.mkdtemp(prefix="verif-%s-" % prop, dir=base)
    tree = os.path.join(scratch, "src")
    r = subprocess.run(["rsync", "-a", "--exclude", ".git", "--exclude", "examples", "--exclude", "*_test.go",
                        "--exclude", "zzverif", src.rstrip("/") + "/", tree + "/"], capture_output=True, text=True)
    if r.returncode != 0:
        log("rsync failed: " + r.stderr)
        shutil.rmtree(scratch, ignore_errors=True)
        sys.exit(2)
    shutil.copytree(os.path.join(VERIF, "overlay", "zzverif"), os.path.join(tree, "zzverif"))
    with open(os.path.join(tree, "go.mod"), "a") as f:
        f.write("\nrequire pgregory.net/rapid v1.3.0\nrequire github.com/anishathalye/porcupine v1.3.0\n")
    summary = None
    if flavour == "instr":
        rw = ensure_rewriter()
        files = []
        for root, dirs, fs in os.walk(tree):
            if "zzverif" in root.split(os.sep):
                continue
            for fn in fs:
                if fn.endswith(".go") and not fn.endswith("_test.go"):
                    files.append(os.path.join(root, fn))
        r = subprocess.run([rw] + sorted(files), capture_output=True, text=True)
        if r.returncode != 0:
            log("rewrite failed (tree does not parse?):\n" + r.stderr)
            shutil.rmtree(scratch, ignore_errors=True)
            sys.exit(2)
        try:
            summary = json.loads(r.stdout)
            for f in summary.get("files", []):
                f["file"] = os.path.relpath(f["file"], tree)
        except Exception:
            summary = None
    return scratch, tree, summary


def build(tree, scratch, cfg):
    out = os.path.join(scratch, "t.test")
    cmd = ["go", "test", "-c", "-trimpath", "-vet=off", "-o", out]
    if cfg.get("race"):
        cmd.append("-race")
    cmd.append(cfg["pkg"])
    t0 = time.time()
    r = subprocess.run(cmd, cwd=tree, env=env_with({}), capture_output=True, text=True)
    if r.returncode != 0 or not os.path.exists(out):
        log("BUILD FAILED (exit 2: infrastructure, not a violation):\n" + r.stdout[-4000:] + r.stderr[-6000:])
        return None
    log("built %s in %.1fs" % (cfg["pkg"], time.time() - t0))
    return out


def run_shards(binary, scratch, prop, cfg, tcfgs, tier, verif_seed, extra_env=None, replay_in=None):
    """tcfgs: list of (part_name, run_regex, tier_cfg). One job per (part, shard)."""
    maxpar = int(os.environ.get("VERIF_PAR", "16"))
    jobs = []
    for pi, (pname, run, tcfg) in enumerate(tcfgs):
        for i in range(tcfg["shards"]):
            jobs.append((pi, pname, run, tcfg, i))
    pending = list(range(len(jobs)))
    results = {}
    running = {}
    t_start = time.time()

    def launch(j):
        pi, pname, run, tcfg, i = jobs[j]
        d = os.path.join(scratch, "run-%s-%d" % (pname, i))
        os.makedirs(d, exist_ok=True)
        seed = shard_seed(verif_seed, prop + "/" + pname, i)
        e = {"VERIF_STATS": os.path.join(d, "stats.json"), "VERIF_REPLAY_OUT": os.path.join(d, "replay.json"),
             "VERIF_TIER": tier, "VERIF_SHARD": str(i), "VERIF_NSHARDS": str(tcfg["shards"]), "VERIF_CASE_SEED": str(seed),
             "VERIF_PROP": prop, "VERIF_REGRESS": os.path.join(VERIF, "replays", "regress")}
        if cfg.get("gomaxprocs"):
            e["GOMAXPROCS"] = str(cfg["gomaxprocs"])
        if replay_in:
            e["VERIF_REPLAY_IN"] = replay_in
        if extra_env:
            e.update(extra_env)
        for k, v in tcfg.get("env", {}).items():
            e[k] = str(v)
        timeout = tcfg.get("timeout", 900)
        cmd = [binary, "-test.run", run if not replay_in else "^TestReplay$", "-test.timeout", "%ds" % (timeout + 60),
               "-rapid.checks=%d" % tcfg["checks"], "-rapid.seed=%d" % seed, "-rapid.shrinktime=%s" % tcfg.get("shrinktime", "20s"),
               "-rapid.nofailfile"]
        if tcfg.get("steps"):
            cmd.append("-rapid.steps=%d" % tcfg["steps"])
        if cfg.get("verbose"):
            cmd.append("-test.v")
        outf = open(os.path.join(d, "out.txt"), "w")
        p = subprocess.Popen(cmd, cwd=d, env=env_with(e), stdout=outf, stderr=subprocess.STDOUT, start_new_session=True)
        running[j] = (p, outf, time.time(), seed, d, timeout)

    while pending or running:
        while pending and len(running) < maxpar:
            launch(pending.pop(0))
        time.sleep(0.05)
        for j in list(running):
            p, outf, t0, seed, d, timeout = running[j]
            rc = p.poll()
            if rc is None and time.time() - t0 > timeout:
                try:
                    os.killpg(p.pid, signal.SIGKILL)
                except Exception:
                    pass
                p.wait()
                rc = "timeout"
            if rc is not None:
                outf.close()
                results[j] = {"rc": rc, "seed": seed, "dir": d, "wall": time.time() - t0, "part": jobs[j][1], "shard": jobs[j][4]}
                del running[j]
    return results, time.time() - t_start


def merge_stats(results):
    counters = {}
    nt = set()
    samples = []
    capped = False
    notes = []
    nshards_with_stats = 0
    maxkeys = ("max_",)
    for i in sorted(results):
        p = os.path.join(results[i]["dir"], "stats.json")
        if not os.path.exists(p):
            continue
        try:
            d = json.load(open(p))
        except Exception:
            continue
        nshards_with_stats += 1
        for k, v in (d.get("counters") or {}).items():
            if k.startswith(maxkeys):
                counters[k] = max(counters.get(k, 0), v)
            else:
                counters[k] = counters.get(k, 0) + v
        nt.update(d.get("nt_hashes") or [])
        capped = capped or d.get("nt_capped", False)
        for s in (d.get("samples") or [])[:2]:
            if len(samples) < 8:
                samples.append(s)
        notes.extend(d.get("notes") or [])
    return counters, nt, samples, capped, notes, nshards_with_stats


def load_known():
    p = os.path.join(VERIF, "known_findings.json")
    if not os.path.exists(p):
        return []
    try:
        return json.load(open(p)).get("findings", [])
    except Exception:
        return []


def main():
    ap = argparse.ArgumentParser()
    ap.add_argument("prop")
    ap.add_argument("--tier", default=os.environ.get("VERIF_TIER", "quick"))
    ap.add_argument("--src", default="/repo")
    ap.add_argument("--replay")
    ap.add_argument("--keep", action="store_true", help="keep the scratch directory (debugging)")
    ap.add_argument("--no-evidence", action="store_true")
    ap.add_argument("--shards", type=int)
    ap.add_argument("--checks", type=int)
    a = ap.parse_args()
    prop = a.prop
    if prop not in PROPS:
        log("unknown property " + prop)
        sys.exit(2)
    cfg = PROPS[prop]
    tier = a.tier if a.tier in ("quick", "thorough") else "quick"
    tcfgs = []
    for part in cfg["parts"]:
        tc = dict(part[tier])
        if a.shards:
            tc["shards"] = a.shards
        if a.checks:
            tc["checks"] = a.checks
        tcfgs.append((part["name"], part["run"], tc))
    if cfg["flavour"] == "instr":
        tcfgs.insert(0, ("regress", "^TestRegress$", {"shards": 1, "checks": 1, "timeout": 300}))
        tcfgs.insert(0, ("selftest", "^TestSelf", {"shards": 1, "checks": 300, "timeout": 300}))
    try:
        verif_seed = int(os.environ.get("VERIF_SEED", "1"))
    except ValueError:
        verif_seed = 1
    t0 = time.time()
    scratch, tree, rw_summary = make_scratch(a.src, cfg["flavour"], prop)
    code = 2
    try:
        binary = build(tree, scratch, cfg)
        if binary is None:
            code = 2
            return code
        if a.replay:
            tc = dict(tcfgs[0][2])
            tc["shards"] = 1
            results, wall = run_shards(binary, scratch, prop, cfg, [("replay", "^TestReplay$", tc)], tier, verif_seed, replay_in=os.path.abspath(a.replay))
            r = results[0]
            out = open(os.path.join(r["dir"], "out.txt")).read()
            print(out[-6000:])
            if r["rc"] == 0:
                print("replay: not reproduced on this tree")
                code = 0
            elif r["rc"] == 1 and "REPRODUCED" in out:
                print("VIOLATION property=%s replay=%s" % (prop, os.path.abspath(a.replay)))
                code = 1
            else:
                code = 2
            return code
        results, wall = run_shards(binary, scratch, prop, cfg, tcfgs, tier, verif_seed)
        counters, nt, samples, capped, notes, nstats = merge_stats(results)
        violations = []
        infra = []
        for i in sorted(results):
            r = results[i]
            rp = os.path.join(r["dir"], "replay.json")
            if r["rc"] == 0:
                continue
            if r["part"] == "selftest":
                infra.append(i)
            elif r["rc"] == 1 and os.path.exists(rp):
                violations.append((i, rp))
            else:
                infra.append(i)
        known = [k for k in load_known() if k.get("property") == prop and k.get("status") == "open"]
        new_viol = []
        known_hits = []
        for i, rp in violations:
            try:
                v = json.load(open(rp))
            except Exception:
                v = {}
            desc = v.get("descriptor", "")
            hit = None
            for k in known:
                if k.get("descriptor") and k["descriptor"] == desc:
                    hit = k
            if hit:
                known_hits.append((hit, desc))
            else:
                new_viol.append((i, rp, v))
        # evidence
        evals = counters.get("executions", 0) + counters.get("cases", 0) + counters.get("evaluations", 0)
        ev = {
            "property_id": prop, "tier": tier, "seed": verif_seed, "level": "exploration",
            "coverage": {
                "evaluations": int(evals),
                "distinct_nontrivial": len(nt),
                "rule": cfg["rule"] + (" NOTE: the per-shard set of non-trivial hashes is capped; the count is a lower bound." if capped else ""),
                "samples": samples,
                "exhaustive": False,
                "counters": counters,
                "parts": [{"name": n, "tests": r, "shards": tc["shards"], "rapid_checks_per_shard": tc["checks"]} for n, r, tc in tcfgs],
                "regress_replays_run": int(counters.get("regress_replays", 0)),
                "shard_seeds": [results[i]["seed"] for i in sorted(results)],
                "generator_notes": notes[:20],
            },
            "assumptions": COMMON_ASSUMPTIONS.get(cfg["flavour"], []) + cfg.get("assumptions", []),
            "wall_s": round(time.time() - t0, 2),
            "violations": len(new_viol),
        }
        if rw_summary:
            ev["coverage"]["rewriter"] = {"rewritten_selectors": rw_summary.get("rewritten"), "kept_selectors": rw_summary.get("kept"),
                                          "seed_pinned": rw_summary.get("seed_pinned"),
                                          "unshimmed_blocking": sorted({u for f in rw_summary.get("files", []) for u in (f.get("unshimmed_blocking") or [])})}
        if known_hits:
            ev["coverage"]["known_findings_hit"] = [k[0].get("id", "?") for k in known_hits]
        if not a.no_evidence and a.src == "/repo":
            os.makedirs(os.path.join(VERIF, "evidence"), exist_ok=True)
            with open(os.path.join(VERIF, "evidence", prop + ".json"), "w") as f:
                json.dump(ev, f, indent=1)
        elif a.no_evidence or a.src != "/repo":
            pass
        for k, desc in {(json.dumps(k[0], sort_keys=True), k[1]) for k in known_hits}:
            kk = json.loads(k)
            print("KNOWN-FINDING: property=%s %s" % (prop, kk.get("what", desc)))
        if new_viol:
            i, rp, v = new_viol[0]
            dst_dir = os.path.join(VERIF, "replays", prop) if a.src == "/repo" else os.path.join(scratch if a.keep else tempfile.gettempdir(), "verif-replays", prop)
            os.makedirs(dst_dir, exist_ok=True)
            dst = os.path.join(dst_dir, "%s-seed%d-%s-shard%d.json" % (tier, verif_seed, results[i]["part"], results[i]["shard"]))
            shutil.copyfile(rp, dst)
            out = open(os.path.join(results[i]["dir"], "out.txt")).read()
            sys.stdout.write(out[-5000:] + "\n")
            print("VIOLATION property=%s replay=%s" % (prop, dst))
            code = 1
            return code
        if infra:
            for i in infra[:3]:
                out = open(os.path.join(results[i]["dir"], "out.txt")).read()
                log("shard %d failed without a replay (rc=%s) — infrastructure/inconclusive:\n%s" % (i, results[i]["rc"], out[-3000:]))
            code = 2
            return code
        if evals <= 0 or nstats == 0:
            log("no executions recorded — inconclusive")
            code = 2
            return code
        print("OK property=%s tier=%s evaluations=%d distinct_nontrivial=%d wall=%.1fs" % (prop, tier, evals, len(nt), time.time() - t0))
        code = 0
        return code
    finally:
        if a.keep:
            log("scratch kept at " + scratch)
        else:
            shutil.rmtree(scratch, ignore_errors=True)


if __name__ == "__main__":
    sys.exit(main())
