#!/usr/bin/env python3
"""Regenerates /verif/MANIFEST.json from driver/props.py and driver/claims.py."""
import json, os, sys
VERIF = os.path.dirname(os.path.dirname(os.path.abspath(__file__)))
sys.path.insert(0, os.path.join(VERIF, "driver"))
from props import PROPS
from claims import CLAIMS, NOT_APPLICABLE, HOOKS, NOTES

ALL = ["C%02d" % i for i in range(1, 17)]
checks = []
for pid in ALL:
    if pid not in PROPS or pid not in CLAIMS:
        continue
    c = CLAIMS[pid]
    checks.append({
        "property_id": pid,
        "quick_cmd": "bin/check %s --tier quick" % pid,
        "thorough_cmd": "bin/check %s --tier thorough" % pid,
        "evidence_file": "evidence/%s.json" % pid,
        "replay_cmd_template": "bin/check %s --replay {path}" % pid,
        "engine": c["engine"],
        "level_claimed": {"category": "exploration", "text": c["text"], "design_ref": c["design_ref"]},
        "level_note": c["note"],
        "technique": c["technique"],
    })
na = [{"property_id": p, "reason": NOT_APPLICABLE.get(p, "check under construction (DESIGN.md section 9); not claimed yet")}
      for p in ALL if p not in {c["property_id"] for c in checks}]
m = {
    "version": 1,
    "setup_cmd": "cd /verif && GOFLAGS=-mod=mod GOPROXY=off GOSUMDB=off GOTOOLCHAIN=local sh bin/setup",
    "hooks": HOOKS,
    "engines": [
        {"name": "E1", "path": "overlay/zzverif/props/{e1,c07,c11,c12}.go", "serves_properties": ["C01", "C06", "C07", "C08", "C09", "C11", "C12"],
         "kind_free_text": "sequential model-based state machine (rapid) under a virtual clock, instrumented scratch copy"},
        {"name": "E2", "path": "overlay/zzverif/props/{gen,run,explore,c16,e2l}.go", "serves_properties": ["C02", "C03", "C04", "C05", "C06", "C07", "C08", "C09", "C13", "C16"],
         "kind_free_text": "generated concurrent programs x generated schedules under a cooperative deterministic scheduler, linearizability checker (E2L: long disjoint-key programs with per-thread sequential oracles)"},
        {"name": "E2R", "path": "overlay/zzverif/props/c13re.go", "serves_properties": ["C13"],
         "kind_free_text": "generated programs whose evicted callbacks and Range visitors call back with the whole vocabulary; termination oracle (deadlock, no-progress, panic) under generated schedules"},
        {"name": "E3", "path": "overlay/zzverif/native", "serves_properties": ["C10", "C14", "C15"],
         "kind_free_text": "native runs on an unrewritten scratch copy (builtin-map differential, race detector, real-time janitor)"},
    ],
    "checks": checks,
    "not_applicable": na,
    "notes": NOTES,
}
json.dump(m, open(os.path.join(VERIF, "MANIFEST.json"), "w"), indent=1)
print("checks:", [c["property_id"] for c in checks], "not claimed:", [n["property_id"] for n in na])
