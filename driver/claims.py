"""Texts of the claims registered in MANIFEST.json (one entry per claimed property)."""

HOOKS = {
    "guard": "none (no source hook is committed to /repo)",
    "enable": "every check copies /repo's working tree to a scratch directory and redirects sync/atomic, sync.{Mutex,Cond}, runtime.Gosched, "
              "time.{Now,Until,NewTicker,...}, channel receive/send/close outside select, and the linknamed runtime.fastrand to shim packages by AST-positioned text substitution "
              "(tools/rewrite); the repository itself is never modified, so there is nothing to switch off",
    "baseline_off_cmd": "cd /repo && go test -vet=off -count=1 ./...",
    "source_commits": [],
    "add_only": True,
}

NOTES = ("All checks: bin/check <id> --tier quick|thorough [--src DIR] [--replay FILE]; exit 0 held / 1 VIOLATION / 2 inconclusive "
         "(build failure, worker death, timeout). VERIF_SEED selects the rapid seeds of all shards. Fix commits in /repo are listed in known_findings.json.")

E2_NOTE = ("Bounded: programs of 2-4 threads x 1-3 calls; all single preemptions of the first-running thread, sampled deeper schedules; "
           "never absence. Assumes data-race freedom (C14), trusts shims/scheduler/model/checker (self-tested).")
E1_NOTE = "Sequential only (concurrency is C02's job); instants restricted to the UnixNano-representable range; trusts the reference model."

CLAIMS = {
    "C01": {"engine": "E1", "design_ref": "DESIGN.md section 4 C01",
            "technique": "model-based stateful property testing (rapid state machine vs TTL reference model, virtual clock)",
            "text": "Generated call sequences x clock schedules (incl. advances landing exactly on / one tick around expiry instants, bulk operations crossing resize thresholds) on Cache and CacheOf, every return value, flag, user-function argument, visitor call and callback compared with a TTL reference model after every step.",
            "note": E1_NOTE},
    "C02": {"engine": "E2", "design_ref": "DESIGN.md section 4 C02",
            "technique": "generated concurrent programs x generated schedules under a deterministic scheduler; linearizability checking against the TTL model",
            "text": "Concurrent cache programs on live / expired-uncleaned / absent keys under an owned schedule (single-preemption sweep, PCT, random walks), history checked for linearizability against the TTL model including quiescent read-back.",
            "note": E2_NOTE},
    "C03": {"engine": "E2", "design_ref": "DESIGN.md section 4 C03",
            "technique": "generated concurrent programs x generated schedules under a deterministic scheduler; linearizability checking against a map model",
            "text": "Concurrent Map programs with fills steered to the grow and shrink thresholds (probing), Clear and resize overlapping the calls, linearizability of the full history incl. quiescent read-back.",
            "note": E2_NOTE},
    "C04": {"engine": "E2", "design_ref": "DESIGN.md section 4 C04",
            "technique": "generated concurrent programs x generated schedules x key types x adversarial hashers; linearizability checking",
            "text": "As C03 on MapOf with int/string/struct keys and default, constant, same-bucket, same-h2, identity and low-bits hashers (chains of every shape built by construction).",
            "note": E2_NOTE},
    "C05": {"engine": "E2", "design_ref": "DESIGN.md section 4 C05",
            "technique": "generated racers on one key x generated schedules; linearizability + user-function call counting",
            "text": "2-4 racers calling get-or-create / compute operations on ONE key (absent, live, expired-uncleaned) on all four containers, incl. fills where the first attempt must grow the table and retry; oracle = linearizability plus exact user-function call counts and arguments.",
            "note": E2_NOTE},
    "C06": {"engine": "E1+E2", "design_ref": "DESIGN.md section 4 C06",
            "technique": "model-based stateful testing of the callback ledger + concurrent removers under generated schedules (ledger inside the linearizability check)",
            "text": "Callback ledger (key, value, firing call) checked against the model's must/may sets sequentially (with Count probes around Delete/GetAndDelete/DeleteExpired, callbacks swapped and re-entering the cache) and inside the linearizability check concurrently; each stored value reported at most once.",
            "note": E2_NOTE + " " + E1_NOTE},
    "C07": {"engine": "E1+E2", "design_ref": "DESIGN.md section 4 C07",
            "technique": "generated contents x visitor behaviours (stop, mutate) against a traversal oracle; traversal racing writers under generated schedules (per-key pseudo-reads in the linearizability check)",
            "text": "Sequentially: exact visit sets on generated contents of all four containers incl. long chains, resized/cleared tables, expired entries, early stop and visitor mutations. Concurrently: a Range/Items thread against writers, Clear and resizes; each key at most once, value current at some moment of the traversal, stable keys always visited.",
            "note": E2_NOTE},
    "C08": {"engine": "E1+E2", "design_ref": "DESIGN.md section 4 C08",
            "technique": "quiescent-point invariant over generated concurrent histories and generated sequences",
            "text": "After every generated concurrent phase (inserts/deletes racing each other and table copies) Size == Range visits == successful Loads == model; caches: Count interval, exact after DeleteExpired, 0 after Clear; sequentially after every few steps.",
            "note": E2_NOTE},
    "C09": {"engine": "E1+E2", "design_ref": "DESIGN.md section 4 C09",
            "technique": "model-based stateful property testing with boundary-value generators (constructors and option lists x TTLs x defaults x clock); generated concurrent programs of default/callback setters racing sentinel-resolving writes under generated schedules, checked for linearizability",
            "text": "Constructor variants (option lists in any order, repeated options) x boundary defaults x boundary TTL arguments x SetDefaultExpiration x arbitrary clock advances; stored instant, GetWithExpiration, GetWithTTL and re-arming behaviour compared exactly with the model under a virtual clock. Concurrently: SetDefaultExpiration and SetEvictedCallback racing every call that resolves the DefaultExpiration sentinel; a default set by a completed call governs every later write.",
            "note": E1_NOTE + " " + E2_NOTE},
    "C16": {"engine": "E2", "design_ref": "DESIGN.md section 4 C16",
            "technique": "stall sweep under a deterministic scheduler: writer parked at every scheduling point / inside its user function while generated lookups run alone",
            "text": "For generated (writer call, lookups) pairs on all four containers the writer is suspended at each of its atomic/lock operations in turn (incl. mid-resize, mid-Clear, inside Compute's user function) and the lookups must complete without blocking, spinning or exceeding a bound on their own steps, returning linearizable results.",
            "note": E2_NOTE + " The own-step bound is a concrete number (4x quiescent cost + 64); lookups of expired keys are excluded as in the property."},
    "C10": {"engine": "E3", "design_ref": "DESIGN.md section 4 C10",
            "technique": "differential property testing against builtin map[K]V over a catalogue of key types with equal-but-differently-represented keys",
            "text": "For 32 comparable key types incl. interface-typed keys holding pointers, nil pointers and the nil interface, padded structs and pointer-free shapes with dirty ignored bytes, signed zeros: generated call sequences on MapOf/CacheOf (default and fully colliding hashers) compared call by call with a builtin map; no valid key may panic. Plus 14 (key,value) pair types chosen for the size, pointer content and alignment class of their entry objects, with bulk phases of up to 4096 pairs.",
            "note": "Sequential; NaN excluded (not equal to itself); the per-process hash key is varied by running several processes, not enumerated."},
    "C11": {"engine": "E1", "design_ref": "DESIGN.md section 4 C11",
            "technique": "differential/metamorphic property testing: one generated call sequence on instances with different size hints, table seeds and hashers, plus a reference map model",
            "text": "Long generated sequences crossing every grow/shrink threshold on instances that differ only in size hint, table seeds and hasher must return identical results and leave identical contents, equal to a reference map.",
            "note": "Sequential; table seeds are part of the generated case (pinned through the rewritten runtime.fastrand), the per-process hash key varies across shard processes."},
    "C12": {"engine": "E1", "design_ref": "DESIGN.md section 4 C12",
            "technique": "differential property testing of the copy-edited twins under one generated program and a shared virtual clock",
            "text": "Cache vs CacheOf[string,interface{}] and Map vs MapOf[string,interface{}] executed in lock-step on generated programs, constructor variants and clock schedules; all observable results, callbacks and contents deeply equal.",
            "note": "Sequential (concurrent behaviour of each twin is decided by C02-C04); values are comparable with reflect.DeepEqual."},
    "C14": {"engine": "E3", "design_ref": "DESIGN.md section 4 C14",
            "technique": "generated parallel programs executed natively under the Go race detector with payload-checksum oracle",
            "text": "Generated parallel programs (2-64 goroutines, nine profiles incl. settings churn, janitor, Range under write, clear/resize churn, big tables, the shrink edge, many unshared containers) on all four containers under -race; every value read back must be a fully initialised payload; long disjoint-key runs against per-goroutine sequential models.",
            "note": "Native OS scheduling, not reproducible by seed; the race detector only sees races that happen in the runs made."},
    "C15": {"engine": "E3", "design_ref": "DESIGN.md section 4 C15",
            "technique": "generated configurations run in real time: Count polling, callback ledger, goroutine count and finalizer sentinel after GC",
            "text": "Generated constructor/interval/population configurations (intervals from 50 microseconds to one minute, waves stored mid-sweep, ballast, callbacks swapped, one slow callback): automatic cleanup within a bounded number of intervals without user calls and at a pace that does not depend on history, no cleanup when not configured, janitor goroutines and contents gone after the caches are dropped - also when only the youngest caches are dropped.",
            "note": "Real time with wide margins; a deadline missed once is re-run, only a repeated miss is reported."},
    "C13": {"engine": "E2+E2R", "design_ref": "DESIGN.md section 4 C13",
            "technique": "deadlock / no-progress detection (step budget and wall-clock watchdog) by a deterministic scheduler over generated programs and schedules; generated callbacks and visitors that call back with the whole vocabulary",
            "text": "Bounded liveness: under every explored schedule no call is unfinished when nothing can run (deadlock, lost wake-up, leaked lock), no execution exceeds 60x its non-preemptive step count and no thread runs 45 s without reaching a scheduling point; evicted callbacks and Range visitors call any method of the same container; quiescent read-back takes every bucket lock.",
            "note": E2_NOTE + " Bounded liveness only: unbounded starvation under an unfair OS scheduler is not decidable by testing."},
}

NOT_APPLICABLE = {}
