"""Per-property configuration of bin/check: which engine/package/test decides the
property, shard and case counts per tier, the non-triviality rule text."""

E2_RULE = ("Cases are generated concurrent programs (rapid v1.3.0 generators: container configuration, sequential prefix "
           "incl. fill level steered to grow/shrink thresholds by probing, 2-4 thread programs of 1-3 calls, layout seed) "
           "x explicit schedules (every thread first non-preemptively; single-preemption sweep over every scheduling point of "
           "the first thread; sampled PCT priority schedules with 2 and 3 change points; random walks; thorough tier: all "
           "double preemptions of 2-thread micro programs). evaluations = executions (program x schedule), each checked by "
           "the oracle. An execution is non-trivial when >= 2 calls of different threads overlapped in time on one key (or "
           "one of them was a whole-container call: Clear/Range/Items/DeleteExpired/Size/Count), at least one of them "
           "modifies, and at least one preemptive context switch happened inside a call. distinct = distinct 64-bit hash of "
           "(canonical program JSON, schedule JSON), union over shards. ")

INSTR_ASSUMPTIONS = [
    "The interleaving model presumes data-race freedom of the library: only sync/atomic, sync.Mutex/Cond and runtime.Gosched calls are scheduling points (C14 checks race freedom natively).",
    "The scheduler, shim packages (zzverif/vs/...), reference model and linearizability checker are trusted; they have their own self-tests (zzverif/selftest).",
    "Go's per-process hash key (runtime.memhash/typehash) cannot be pinned: placement of default-hashed keys differs between processes; table seeds are pinned per case.",
    "Instants are restricted to those representable as UnixNano (TTL <= 2^62 ns on a 2023 virtual epoch).",
]

COMMON_ASSUMPTIONS = {
    "instr": INSTR_ASSUMPTIONS,
    "plain": ["Native execution on the unmodified tree; the Go runtime, race detector and garbage collector are trusted."],
}


def e2(run, oracle, quick_checks=40, thorough_checks=900, extra_rule=""):
    return {
        "flavour": "instr", "pkg": "./zzverif/props/", "run": run, "gomaxprocs": 1,
        "quick": {"shards": 16, "checks": quick_checks, "timeout": 600},
        "thorough": {"shards": 16, "checks": thorough_checks, "timeout": 3 * 3600, "shrinktime": "60s"},
        "rule": E2_RULE + "Oracle: " + oracle + extra_rule,
    }


PROPS = {
    "C03": e2("^TestC03$", "Wing-Gong linearizability search of the recorded history (prefix + concurrent phase + quiescent read-back of every key, Size and Range) against the map reference model; Range decomposed per key; direct checks for phantom keys/values, duplicate visits, quiescent Size == Range visits == successful Loads; scheduler deadlock / no-progress / panic detectors."),
}
