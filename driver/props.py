"""Per-property configuration of bin/check: which engine/package/test decides the
property, shard and case counts per tier, the non-triviality rule text."""

E2_RULE = ("Cases are generated concurrent programs (rapid v1.3.0 generators: container configuration, sequential prefix "
           "incl. fill level steered to grow/shrink thresholds by probing, 2-4 thread programs of 1-3 calls, layout seed) "
           "x explicit schedules (every thread first non-preemptively; single-preemption sweep over every scheduling point of "
           "the first thread; sampled PCT priority schedules with 2 and 3 change points; random walks; thorough tier: all "
           "double preemptions of 2-thread micro programs). evaluations = executions (program x schedule), each checked by "
           "the oracle. An execution is non-trivial when >= 2 calls of different threads overlapped in time on one key (or "
           "one of them was a whole-container call: Clear/Range/Items/DeleteExpired/Size/Count), at least one of them "
           "modifies, and at least one preemptive context switch happened inside a call. distinct = distinct 64-bit hash of "
           "(canonical program JSON, schedule JSON), union over shards. ")

INSTR_ASSUMPTIONS = [
    "The interleaving model presumes data-race freedom of the library: only sync/atomic, sync.Mutex/Cond and runtime.Gosched calls are scheduling points (C14 checks race freedom natively).",
    "The scheduler, shim packages (zzverif/vs/...), reference model and linearizability checker are trusted; they have their own self-tests (zzverif/selftest).",
    "Go's per-process hash key (runtime.memhash/typehash) cannot be pinned: placement of default-hashed keys differs between processes; table seeds are pinned per case.",
    "Instants are restricted to those representable as UnixNano (TTL <= 2^62 ns on a 2023 virtual epoch).",
]

COMMON_ASSUMPTIONS = {
    "instr": INSTR_ASSUMPTIONS,
    "plain": ["Native execution on the unmodified tree; the Go runtime, race detector and garbage collector are trusted."],
}



E1_RULE = ("Cases are generated call sequences (rapid v1.3.0 state machine, average length from -rapid.steps) over one cache "
           "built by a generated constructor variant, interleaved with generated clock advances that land exactly on, one tick "
           "before or one tick after the expiry instant of a live entry, by small random amounts or by seconds; TTL arguments "
           "from the boundary set {NoExpiration, DefaultExpiration, other negatives, 0, 1, 2, small, 1s, 2^62}; bulk inserts/"
           "deletes of 40-400 keys cross the grow thresholds. Every call runs as a one-thread controlled execution (self-"
           "deadlock and endless spin are detected) and is compared with the TTL reference model; Items()/Count() read-back "
           "every few steps and at the end. evaluations = cases. A case is non-trivial when a value-returning call touched an "
           "expired-but-uncleaned key, or a call happened with the clock exactly on or one tick around the entry's expiry "
           "instant, or a bulk insert with TTLs crossed the resize threshold, or an evicted callback fired; distinct = "
           "distinct hash of the full call sequence. ")


def tiers(q_shards, q_checks, t_shards, t_checks, q_timeout=600, t_timeout=3 * 3600, steps=None, tsteps=None):
    q = {"shards": q_shards, "checks": q_checks, "timeout": q_timeout}
    t = {"shards": t_shards, "checks": t_checks, "timeout": t_timeout, "shrinktime": "60s"}
    if steps:
        q["steps"] = steps
        t["steps"] = tsteps or steps
    return {"quick": q, "thorough": t}


def part(name, run, q_checks, t_checks, shards=16, steps=None, tsteps=None):
    d = {"name": name, "run": run}
    d.update(tiers(shards, q_checks, shards, t_checks, steps=steps, tsteps=tsteps))
    return d


def instr(parts, rule, assumptions=None):
    return {"flavour": "instr", "pkg": "./zzverif/props/", "gomaxprocs": 1, "parts": parts, "rule": rule,
            "assumptions": assumptions or []}


LIN = ("Wing-Gong linearizability search of the recorded history (sequential prefix, concurrent phase, quiescent read-back of "
       "every key, Size/Count and Range/Items) against the reference model; Range/Items decomposed into one pseudo-read per "
       "key, DeleteExpired into one sweep per key (its observation = the callback ledger of that call); direct checks: phantom "
       "keys/values, duplicate visits, each stored value reported to the callback at most once, user-function call counts and "
       "arguments, quiescent Size == Range visits == successful Loads; scheduler deadlock / no-progress / panic detectors.")

PROPS = {
    "C01": instr([part("e1", "^TestC01$", 2500, 60000, steps=60, tsteps=90)], E1_RULE + "Oracle: TTL reference model, step by step."),
    "C02": instr([part("e2", "^TestC02$", 450, 9000)], E2_RULE + "Oracle: " + LIN),
    "C03": instr([part("e2", "^TestC03$", 450, 9000)], E2_RULE + "Oracle: " + LIN),
    "C04": instr([part("e2", "^TestC04$", 450, 9000)], E2_RULE + "Oracle: " + LIN),
    "C05": instr([part("e2", "^TestC05$", 450, 9000)], E2_RULE + "All thread calls target ONE key (absent, live or expired-uncleaned). Oracle: " + LIN),
    "C06": instr([part("e1", "^TestC06E1$", 2500, 60000, steps=60, tsteps=90), part("e2", "^TestC06E2$", 300, 6000)],
                 "Two engines. (e1) " + E1_RULE + "(e2) " + E2_RULE + "Oracle: callback ledger against the model's must/may sets (e1), ledger inside the linearizability check (e2). " + LIN),
    "C07": instr([part("e1", "^TestC07E1$", 1200, 40000), part("e2", "^TestC07E2$", 300, 6000)],
                 "Two engines. (e1) generated contents (1..3000 keys via bulk inserts/deletes/Clear, long chains under constant/low-bits hashers, expired-uncleaned "
                 "entries for caches) on all four containers, then ONE traversal whose visitor stops after n calls and/or stores, deletes (and for caches advances the clock) "
                 "on the container it traverses; oracle: each key at most once, only with a value it held during the traversal, every untouched live key exactly once, no "
                 "call after false, exact read-back afterwards; non-trivial = visitor mutates or stops, or overflow buckets exist, or thousands of keys; distinct by hash of "
                 "the call list. (e2) " + E2_RULE + "Thread 0 starts with a traversal racing writers/Clear/resizes; per-key pseudo-reads inside the linearizability check. " + LIN),
    "C08": instr([part("e1", "^TestC08E1$", 2500, 60000, steps=60, tsteps=90), part("e2", "^TestC08E2$", 300, 6000)],
                 "Two engines. (e1) " + E1_RULE + "(e2) " + E2_RULE + "Oracle: at every quiescent point Size()/Count() == Range visits == successful Loads == model (maps), Count interval / exact after DeleteExpired / 0 after Clear (caches). " + LIN),
    "C09": instr([part("e1", "^TestC09$", 2500, 60000, steps=60, tsteps=90)], E1_RULE + "Generator weighted to constructors x boundary TTLs/defaults x GetWithExpiration/GetWithTTL/SetDefaultExpiration. Oracle: exact instants from the TTL model."),
    "C16": instr([part("stall", "^TestC16$", 250, 6000)],
                 "Cases are generated programs of one modifying call W (every mutator, Clear, Range, grow-triggering insert and shrink-triggering delete via fill steering, "
                 "Compute/GetOrCompute/LoadOrCompute whose user function calls vs.Park()) and 1-3 lookups R (Load, hit path of LoadOrStore/LoadOrCompute on a stable key, "
                 "Get, GetWithExpiration, GetWithTTL, Size/Count) on the same key, bucket mates (density / colliding hashers) and unrelated keys, present-and-unexpired or absent; "
                 "x a sweep: W is stalled at EVERY one of its scheduling points in turn, and inside its user function, while R runs alone. evaluations = executions. "
                 "Oracle: R never blocks (mutex/cond), never yields (spin), stays within 4x its quiescent step count + 64 of its own steps (decider 'stall'), and the complete "
                 "history is linearizable. Non-trivial = W was stalled strictly inside its call while R executed; distinct by hash(program, stall point). "),
    "C13": instr([part("e2", "^TestC13$", 450, 9000)], E2_RULE + "Weights on Clear, Range, resize triggers, re-entrant callbacks. Oracle: scheduler deadlock detector (some thread unfinished, none runnable), no-progress detector (step budget 60x the non-preemptive run + 20000), quiescent read-back touching every bucket lock. " + LIN),
}
