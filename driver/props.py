"""Per-property configuration of bin/check: which engine/package/test decides the
property, shard and case counts per tier, the non-triviality rule text."""

E2_RULE = ("Cases are generated concurrent programs (rapid v1.3.0 generators: container configuration, sequential prefix "
           "incl. fill level steered to grow/shrink thresholds by probing, 2-4 thread programs of 1-3 calls, layout seed) "
           "x explicit schedules (every thread first non-preemptively; single-preemption sweep over every scheduling point of "
           "the first thread; kind-directed second preemption of every other thread at its first Cond.Wait / Broadcast when the "
           "single-preemption run involved the resize condition; sampled PCT priority schedules with 2 and 3 change points; "
           "random walks; thorough tier: deeper programs and all double preemptions of 2-thread micro programs). For a third of "
           "the cache programs the virtual clock TICKS on every read, so time passes between the steps of a call and TTLs of 1-8 "
           "ticks expire during the concurrent phase; otherwise it is frozen during the phase. evaluations = executions (program x schedule), each checked by "
           "the oracle. An execution is non-trivial when >= 2 calls of different threads overlapped in time on one key (or "
           "one of them was a whole-container call: Clear/Range/Items/DeleteExpired/Size/Count), at least one of them "
           "modifies, and at least one preemptive context switch happened inside a call. distinct = distinct 64-bit hash of "
           "(canonical program JSON, schedule JSON), union over shards. ")

INSTR_ASSUMPTIONS = [
    "The interleaving model presumes data-race freedom of the library: only sync/atomic, sync.Mutex/Cond and runtime.Gosched calls are scheduling points (C14 checks race freedom natively).",
    "The scheduler, shim packages (zzverif/vs/...), reference model and linearizability checker are trusted; they have their own self-tests (zzverif/selftest).",
    "Go's per-process hash key (runtime.memhash/typehash) cannot be pinned: placement of default-hashed keys differs between processes; table seeds are pinned per case.",
    "Instants are restricted to those representable as UnixNano (TTL <= 2^62 ns on a 2023 virtual epoch).",
]

COMMON_ASSUMPTIONS = {
    "instr": INSTR_ASSUMPTIONS,
    "plain": ["Native execution on the unmodified tree; the Go runtime, race detector and garbage collector are trusted."],
}



E1_RULE = ("Cases are generated call sequences (rapid v1.3.0 state machine, average length from -rapid.steps) over one cache "
           "built by a generated constructor variant, interleaved with generated clock advances that land exactly on, one tick "
           "before or one tick after the expiry instant of a live entry, by small random amounts or by seconds; TTL arguments "
           "from the boundary set {NoExpiration, DefaultExpiration, other negatives, 0, 1, 2, small, 1s, 2^62}; bulk inserts/"
           "deletes of 40-400 keys cross the grow thresholds. Every call runs as a one-thread controlled execution (self-"
           "deadlock and endless spin are detected) and is compared with the TTL reference model; Items()/Count() read-back "
           "every few steps and at the end. evaluations = cases. A case is non-trivial when a value-returning call touched an "
           "expired-but-uncleaned key, or a call happened with the clock exactly on or one tick around the entry's expiry "
           "instant, or a bulk insert with TTLs crossed the resize threshold, or an evicted callback fired; distinct = "
           "distinct hash of the full call sequence. ")


def tiers(q_shards, q_checks, t_shards, t_checks, q_timeout=600, t_timeout=3 * 3600, steps=None, tsteps=None):
    q = {"shards": q_shards, "checks": q_checks, "timeout": q_timeout}
    t = {"shards": t_shards, "checks": t_checks, "timeout": t_timeout, "shrinktime": "60s"}
    if steps:
        q["steps"] = steps
        t["steps"] = tsteps or steps
    return {"quick": q, "thorough": t}


def part(name, run, q_checks, t_checks, shards=16, steps=None, tsteps=None, env=None):
    d = {"name": name, "run": run}
    d.update(tiers(shards, q_checks, shards, t_checks, steps=steps, tsteps=tsteps))
    if env:
        d["quick"]["env"] = dict(env)
        d["thorough"]["env"] = dict(env)
    return d


def instr(parts, rule, assumptions=None):
    return {"flavour": "instr", "pkg": "./zzverif/props/", "gomaxprocs": 1, "parts": parts, "rule": rule,
            "assumptions": assumptions or []}


def plain(parts, rule, race=False, assumptions=None):
    d = {"flavour": "plain", "pkg": "./zzverif/native/", "parts": parts, "rule": rule, "assumptions": assumptions or []}
    if race:
        d["race"] = True
    return d


def npart(name, run, q, t):
    return {"name": name, "run": run, "quick": q, "thorough": t}


LIN = ("Wing-Gong linearizability search of the recorded history (sequential prefix, concurrent phase, quiescent read-back of "
       "every key, Size/Count and Range/Items) against the reference model; Range/Items decomposed into one pseudo-read per "
       "key, DeleteExpired into one sweep per key (its observation = the callback ledger of that call); direct checks: phantom "
       "keys/values, duplicate visits, each stored value reported to the callback at most once, user-function call counts and "
       "arguments, quiescent Size == Range visits == successful Loads; scheduler deadlock / no-progress / panic detectors.")

PROPS = {
    "C01": instr([part("e1", "^TestC01$", 2500, 60000, steps=60, tsteps=90)], E1_RULE + "Oracle: TTL reference model, step by step."),
    "C02": instr([part("e2", "^TestC02$", 500, 2500), part("long", "^TestC02L$", 40, 600)], E2_RULE + "Oracle: " + LIN + " (long) generated LONG programs: 2-4 threads x 60-300 calls each on DISJOINT key sets (fill / churn / drain phases so that the shared table grows and shrinks several times while the others work; colliding hashers give shared chains) x 9 (quick) / 30 (thorough) sampled schedules (random walks 1/4..1/256, PCT with 4-13 change points, kind-directed pauses at the first Cond.Wait / Broadcast); oracle: every call of a thread must agree exactly with that thread's own sequential reference model (nobody else touches its keys; a traversal must show each of its live keys exactly once), quiescent Size == traversal == point lookups; non-trivial = a resize completed during the execution with at least one preemptive switch."),
    "C03": instr([part("e2", "^TestC03$", 600, 2500), part("long", "^TestC03L$", 40, 600)], E2_RULE + "Oracle: " + LIN + " (long) generated LONG programs: 2-4 threads x 60-300 calls each on DISJOINT key sets (fill / churn / drain phases so that the shared table grows and shrinks several times while the others work; colliding hashers give shared chains) x 9 (quick) / 30 (thorough) sampled schedules (random walks 1/4..1/256, PCT with 4-13 change points, kind-directed pauses at the first Cond.Wait / Broadcast); oracle: every call of a thread must agree exactly with that thread's own sequential reference model (nobody else touches its keys; a traversal must show each of its live keys exactly once), quiescent Size == traversal == point lookups; non-trivial = a resize completed during the execution with at least one preemptive switch."),
    "C04": instr([part("e2", "^TestC04$", 600, 2500), part("long", "^TestC04L$", 40, 600)], E2_RULE + "Oracle: " + LIN + " (long) generated LONG programs: 2-4 threads x 60-300 calls each on DISJOINT key sets (fill / churn / drain phases so that the shared table grows and shrinks several times while the others work; colliding hashers give shared chains) x 9 (quick) / 30 (thorough) sampled schedules (random walks 1/4..1/256, PCT with 4-13 change points, kind-directed pauses at the first Cond.Wait / Broadcast); oracle: every call of a thread must agree exactly with that thread's own sequential reference model (nobody else touches its keys; a traversal must show each of its live keys exactly once), quiescent Size == traversal == point lookups; non-trivial = a resize completed during the execution with at least one preemptive switch."),
    "C05": instr([part("e2", "^TestC05$", 450, 2500)], E2_RULE + "All thread calls target ONE key (absent, live or expired-uncleaned). Oracle: " + LIN),
    "C06": instr([part("e1", "^TestC06E1$", 2500, 60000, steps=60, tsteps=90), part("e2", "^TestC06E2$", 450, 2000)],
                 "Two engines. (e1) " + E1_RULE + "(e2) " + E2_RULE + "Oracle: callback ledger against the model's must/may sets (e1), ledger inside the linearizability check (e2). " + LIN),
    "C07": instr([part("e1", "^TestC07E1$", 1200, 40000), part("e2", "^TestC07E2$", 400, 2000)],
                 "Two engines. (e1) generated contents (1..3000 keys via bulk inserts/deletes/Clear, long chains under constant/low-bits hashers, expired-uncleaned "
                 "entries for caches) on all four containers, then ONE traversal whose visitor stops after n calls and/or stores, deletes (and for caches advances the clock) "
                 "on the container it traverses; oracle: each key at most once, only with a value it held during the traversal, every untouched live key exactly once, no "
                 "call after false, exact read-back afterwards; non-trivial = visitor mutates or stops, or overflow buckets exist, or thousands of keys; distinct by hash of "
                 "the call list. (e2) " + E2_RULE + "Thread 0 starts with a traversal racing writers/Clear/resizes; per-key pseudo-reads inside the linearizability check. " + LIN),
    "C08": instr([part("e1", "^TestC08E1$", 2500, 60000, steps=60, tsteps=90), part("e2", "^TestC08E2$", 350, 2000), part("long", "^TestC08L$", 40, 600)],
                 "Two engines. (e1) " + E1_RULE + "(e2) " + E2_RULE + "Oracle: at every quiescent point Size()/Count() == Range visits == successful Loads == model (maps), Count interval / exact after DeleteExpired / 0 after Clear (caches). " + LIN),
    "C09": instr([part("e1", "^TestC09$", 2500, 60000, steps=60, tsteps=90), part("e2", "^TestC09E2$", 300, 1500)], "Two engines. (e1) " + E1_RULE + "Generator weighted to constructors (option lists in any order, with repeated options of which the last counts) x boundary TTLs/defaults x GetWithExpiration/GetWithTTL/SetDefaultExpiration. Oracle: exact instants from the TTL model. (e2) " + E2_RULE + "Weights on SetDefaultExpiration racing the calls that resolve the DefaultExpiration sentinel (SetDefault, Set/GetOrSet/GetAndSet/GetAndRefresh/GetOrCompute/Compute with the sentinel) and on GetWithTTL/GetWithExpiration/DefaultExpiration afterwards: a default set by a COMPLETED SetDefaultExpiration must govern every later sentinel write; under the ticking clock a concurrent GetWithTTL must report the time remaining at one of its OWN clock readings that is not older than the reading the entry's expiry was stamped from. " + LIN),
    "C16": instr([part("stall", "^TestC16$", 400, 20000)],
                 "Cases are generated programs of one modifying call W (every mutator, Clear, Range, grow-triggering insert and shrink-triggering delete via fill steering, "
                 "Compute/GetOrCompute/LoadOrCompute whose user function calls vs.Park()) and 1-3 lookups R (Load, hit path of LoadOrStore/LoadOrCompute on a stable key, "
                 "Get, GetWithExpiration, GetWithTTL, Size/Count) on the same key, bucket mates (density / colliding hashers) and unrelated keys, present-and-unexpired (TTLs: none, 1 ms, 5 us, and two that wrap around int64 so that the stored stamp is negative = never expires) or absent; "
                 "x a sweep: W is stalled at EVERY one of its scheduling points in turn, and inside its user function, while R runs alone. evaluations = executions. "
                 "Oracle: R never blocks (mutex/cond), never yields (spin), stays within 4x its quiescent step count + 64 of its own steps (decider 'stall'), and the complete "
                 "history is linearizable. Non-trivial = W was stalled strictly inside its call while R executed; distinct by hash(program, stall point). "),
    "C10": plain([part("keys", "^TestC10$", 400, 12000, shards=8, steps=40, tsteps=60), part("kv", "^TestC10KV$", 160, 6000, shards=8)],
                 "Cases are generated call sequences (Load, Store, LoadOrStore, LoadAndStore, LoadAndDelete, Delete, Compute store/delete, pointee mutation) over "
                 "a per-type key pool that contains ==-equal keys with different representations (strings in different backing arrays, +0/-0, structs whose padding bytes are "
                 "0xFF garbage, interface values holding equal dynamic values, the nil interface, nil and non-nil pointers) and unequal look-alikes, for 32 key types "
                 "(string, named string, int, int8, uint8, uint16, int32, int64, uint64, uintptr, unsafe.Pointer, float32, float64, complex128, bool, pointer, struct pointer, chan, array, string array, "
                 "array of interfaces, empty struct, padded struct, nested struct, struct with embedded struct and arrays of structs, struct with interface field, any, non-empty interface, and four pointer-free shapes whose ignored bytes are filled with different garbage per key: arrays of structs with trailing padding, a struct nesting them, arrays of structs with blank fields, arrays of pointer+byte structs), on MapOf (default / constant hasher / presized) and CacheOf. Oracle: a builtin map[K]int fed the same calls (every result, "
                 "values handed to Compute, Range as a set, Size); any panic on a valid key is a violation. evaluations = cases; non-trivial = an ==-equal key with a different "
                 "representation was used for a lookup, or all hashes collide (constant hasher), or a lookup followed a mutation of memory the key points to; distinct by hash of (type, container, calls). "
                 "The per-process hash key varies between the shard processes. Part `kv`: the VALUE type as a dimension of its own - 14 (K,V) pair types whose entry objects differ in size, "
                 "pointer content and allocator alignment class (uint16->uint16, uint8->uint8, int16->bool, uint8->struct{}, struct{uint8,uint8}->uint8, uint16->[3]uint8, int32->int32, uint32->float32, int->*int, string->string, string->bool, "
                 "int->[5]int64, int64->any incl. nil, bool->uint8) on MapOf (default, presized 4096, constant hasher) and CacheOf (default, min capacity 2000): generated phases of bulk stores / bulk deletes of up to 4096 pairs and single calls, "
                 "after each phase every key of the span, Size and Range as a set against a builtin map[K]V. Non-trivial there = at least 200 pairs were stored."),
    "C11": instr([part("seq", "^TestC11$", 120, 4000, steps=120, tsteps=160, env={"GOMAXPROCS": 4})],
                 "Cases are generated long call sequences (all nine mutators incl. Compute with every present/absent x store/delete combination, bulk inserts and bulk deletes of "
                 "50-20000 keys over universes up to 120000 keys (tables of thousands of buckets) that cross every grow and shrink threshold several times, Clear; run with GOMAXPROCS=4 so that a resize that works with helper goroutines really runs in parallel) executed simultaneously on instance A "
                 "(size hint from {-5,0,1,96,97,161,1000,100000}), instance B (another hint, other table seeds) and, for small universes of MapOf, instances with a constant and a "
                 "four-bucket hasher (every slot-occupancy pattern of one chain); Map, MapOf (int/string/struct keys), Cache, CacheOf. Oracle: every result identical on all instances "
                 "(this pins the value returned with ok=false too) and equal to the reference map model; full Range/Items + Size/Count checkpoints. evaluations = cases; non-trivial = the "
                 "table grew AND shrank (Stats(); caches: > 400 entries then <= 1), or a delete-type call hit an absent key while the constant-hasher chain was exactly full; distinct by hash of the call list."),
    "C12": instr([part("twins", "^TestC12$", 1500, 40000, steps=60, tsteps=90)],
                 "Cases: ONE generated program (C01's call vocabulary incl. clock advances onto expiry instants, bulk operations, callbacks swapped at run time; or the Map vocabulary) "
                 "executed in lock-step on Cache and CacheOf[string,interface{}] (or Map and MapOf[string,interface{}]) built by the same generated constructor variant "
                 "(New/NewOf with options, NewDefault/NewOfDefault, NewMap*/NewMapOf*), values incl. nil, strings, arrays, floats. Oracle: differential - every return value, flag, "
                 "time, user-function argument, evicted-callback ledger, Items/Range as sets, Count/Size, DefaultExpiration() must be deeply equal. evaluations = cases; non-trivial = a call "
                 "touched an expired-uncleaned key, or a callback fired, or a bulk insert crossed both twins' grow thresholds; distinct by hash of (constructor variant, calls)."),
    "C14": plain([npart("race", "^TestC14$", {"shards": 8, "checks": 1, "timeout": 900, "env": {"VERIF_C14_PROGRAMS": 18}},
                        {"shards": 8, "checks": 1, "timeout": 3 * 3600, "env": {"VERIF_C14_PROGRAMS": 2500}}),
                  npart("long", "^TestC14Long$", {"shards": 4, "checks": 1, "timeout": 900, "env": {"VERIF_C14_LONG": 8}},
                        {"shards": 8, "checks": 1, "timeout": 3 * 3600, "env": {"VERIF_C14_LONG": 800}})],
                 "Cases are generated parallel programs (rapid Custom generator harvested with Example(seed): container in {Map, MapOf, Cache, CacheOf}, profile in {write-heavy, "
                 "read-heavy, range-under-write, settings churn (SetDefaultExpiration/SetEvictedCallback/DeleteExpired/Items), clear/resize churn over 300-4000 keys, janitor on at 1 ms, big tables of 12000-30000 keys, shrink edge (a table grown by 200-2500 keys, drained to 3-6 toggled keys plus 0-16 that stay, so that the entry count moves across the shrink threshold; 16 fresh containers per program), multi (no container shared: 2-16 goroutines each constructing, filling, reading back, draining or clearing 6-24 containers of their own, with and without janitor - what the package shares BETWEEN containers)}, "
                 "2-64 goroutines x 50-2000 calls, key range 1-400, per-goroutine op streams from the program's seed), each executed natively as its own Go subtest in a binary built "
                 "with -race. Oracle: the Go race detector (any report fails the subtest) and payload integrity: every value read back (also in visitors, Compute arguments, callbacks, "
                 "Items) is a pointer to a freshly initialised 72-byte payload whose checksum must be consistent. evaluations = programs; non-trivial = >= 2 goroutines share a key range "
                 "<= 400 with writers in every profile; distinct by hash of the program. Part `long`: 2-16 goroutines x 200-3000 calls on DISJOINT key sets (fill/churn/drain) natively under -race; each goroutine's calls must agree exactly with its own sequential reference model and the quiescent Size with the point lookups — lost updates and stale publications on real threads, independent of the scheduler used elsewhere.", race=True,
                 assumptions=["OS-scheduled: not reproducible by seed; absence of race reports is not absence of races."]),
    "C15": plain([npart("janitor", "^TestC15$", {"shards": 4, "checks": 1, "timeout": 900, "env": {"VERIF_C15_CONFIGS": 16}},
                        {"shards": 4, "checks": 1, "timeout": 3 * 3600, "env": {"VERIF_C15_CONFIGS": 800}})],
                 "Cases are generated configurations (constructor variant x Cache/CacheOf x cleanup interval in {-5,0,2,3,5,10,20 ms, and in a fifth of the janitor configurations 50/200/499/700 microseconds, 1 min (nothing can be swept within the test: only construction and the drop are observed - the janitor must die with the cache at once, not at its next tick)} x 1-60 caches x 0-50 entries with 1 ms TTL x 0-50 "
                 "never-expiring entries x callback yes/no x 1-6 waves of further expiring entries stored either the moment a janitor pass is seen at work (first removal observed: mid-sweep) or after a pause of 0.3-15 ms x 0/50000/150000 never-expiring ballast entries that stretch every pass to milliseconds x callback replaced after construction (other ledger / nil) x one slow callback) run in real time. Oracle: interval > 0: with no user call on the keys Count() drops to the never-expiring population within "
                 "max(200 intervals, 5 s) and the callback ledger holds every expired key exactly once and nothing else; interval > 0 also: in a third of the configurations the first evicted callback takes max(40 intervals, 300 ms) once (one sweep overruns), and after all waves three probe entries, each stored right after the previous one was seen removed, must be gone within max(25 intervals, 250 ms) - the pace may not depend on history; interval <= 0: Count() is "
                 "unchanged and no callback fires during a 60 ms window, DeleteExpired then cleans exactly; in half of the configurations the youngest half of the caches (and the auxiliary cache, the youngest of all) is dropped first and must be released while the older half stays in use; finally, after dropping all references and polling runtime.GC(), "
                 "runtime.NumGoroutine() is back at its baseline and a finalizer sentinel stored in a cache of the same kind has been released, within 10 s. A missed deadline is "
                 "re-run once in isolation; only a repeated miss is a violation. evaluations = cases; non-trivial = janitor configured with >= 1 expiring entry, or >= 2 caches dropped; "
                 "distinct by hash of the configuration.",
                 assumptions=["Real time and the real GC: deadlines (5 s / 10 s) are > 100x the latencies measured in this sandbox (18 ms / 6 ms)."]),
    "C13": instr([part("e2", "^TestC13$", 450, 2500), part("reenter", "^TestC13Reenter$", 500, 20000)], E2_RULE + "Weights on Clear, Range, resize triggers, re-entrant callbacks. Oracle: scheduler deadlock detector (some thread unfinished, none runnable), no-progress detector (step budget 60x the non-preemptive run + 20000), quiescent read-back touching every bucket lock. " + LIN +
                 " Part `reenter` (engine E2R): generated caches whose evicted callback calls back with 1-3 calls drawn from the WHOLE cache vocabulary (Set, GetOrSet, Compute, Delete, GetAndDelete, DeleteExpired, Clear, Range, Items, Count, SetEvictedCallback, SetDefaultExpiration, ...; nesting capped at two levels) and whose Range visitors do the same, under 1-3 threads of removers and other calls on four keys with expired-uncleaned entries, each under every non-preemptive rotation plus random-walk schedules; the effects of re-entrant calls are not modelled, the oracle is C13's own: every call returns (no deadlock, no spinning, no panic), the quiescent read-back returns, every pair the callback received was stored at some time. Non-trivial there = the callback really made a re-entrant call."),
}
