#!/usr/bin/env python3
"""Generator audit by statement coverage (DESIGN.md 7.4): builds the instr-flavour test binary with -coverpkg over
the library, runs every instr check's tests with a small case count, and reports per-function statement coverage of
the library. Writes audit/coverage.json. A function of the expectation list with 0 % coverage is exit 2
("generator no longer reaches X"); this is a health check of the generators, never a violation."""
import json, os, subprocess, sys, shutil, re
VERIF = os.path.dirname(os.path.dirname(os.path.abspath(__file__)))
sys.path.insert(0, os.path.join(VERIF, "driver"))
import check as C
from props import PROPS

MUST_REACH = ["doCompute", "resize", "copyBucket", "copyBucketOf", "appendToBucket", "appendToBucketOf", "Range", "waitForResize",
              "Load", "Clear", "Size", "isEmptyBucket", "lockBucket", "unlockBucket", "GetAndDelete", "DeleteExpired", "GetOrCompute",
              "Compute", "GetAndRefresh", "GetAndSet", "GetOrSet", "GetWithTTL", "GetWithExpiration", "Items", "expiration", "get",
              "SetEvictedCallback", "SetDefaultExpiration", "configDefault", "configDefaultOf", "defaultHasher", "newXsyncMapDefault", "newXsyncMapOfDefault"]


def main():
    checks = int(sys.argv[1]) if len(sys.argv) > 1 else 60
    scratch, tree, _ = C.make_scratch("/repo", "instr", "audit")
    try:
        out = os.path.join(scratch, "cov.test")
        r = subprocess.run(["go", "test", "-c", "-trimpath", "-vet=off", "-cover", "-coverpkg=github.com/fufuok/cache,github.com/fufuok/cache/internal/xsync",
                            "-o", out, "./zzverif/props/"], cwd=tree, env=C.env_with({}), capture_output=True, text=True)
        if r.returncode != 0:
            print(r.stderr[-3000:]); return 2
        runs = sorted({part["run"] for p, cfg in PROPS.items() if cfg["flavour"] == "instr" for part in cfg["parts"]})
        profiles = []
        procs = []
        for i, run in enumerate(runs):
            d = os.path.join(scratch, "cov%d" % i); os.makedirs(d)
            prof = os.path.join(d, "cover.out"); profiles.append(prof)
            procs.append(subprocess.Popen([out, "-test.run", run, "-rapid.checks=%d" % checks, "-rapid.seed=%d" % (7 + i), "-rapid.nofailfile",
                                           "-test.coverprofile", prof, "-test.timeout", "900s"], cwd=d, env=C.env_with({"GOMAXPROCS": "1", "VERIF_TIER": "quick"}),
                                          stdout=subprocess.DEVNULL, stderr=subprocess.DEVNULL))
        for p in procs:
            p.wait()
        # merge profiles (mode: set)
        covered = {}
        for prof in profiles:
            if not os.path.exists(prof):
                continue
            for line in open(prof):
                if line.startswith("mode:"):
                    continue
                blk, n, cnt = line.rsplit(" ", 2)
                covered[(blk, n)] = covered.get((blk, n), 0) + int(cnt)
        merged = os.path.join(scratch, "merged.out")
        with open(merged, "w") as f:
            f.write("mode: set\n")
            for (blk, n), cnt in sorted(covered.items()):
                f.write("%s %s %d\n" % (blk, n, 1 if cnt > 0 else 0))
        r = subprocess.run(["go", "tool", "cover", "-func", merged], cwd=tree, env=C.env_with({}), capture_output=True, text=True)
        funcs = {}
        total = None
        for line in r.stdout.splitlines():
            m = re.match(r"(\S+):(\d+):\s+(\S+)\s+([\d.]+)%", line)
            if m:
                f = os.path.basename(m.group(1)) + ":" + m.group(3)
                funcs[f] = float(m.group(4))
            elif line.startswith("total:"):
                total = float(line.split()[-1].rstrip("%"))
        below = {f: v for f, v in funcs.items() if v < 100.0}
        unreached = sorted(f for f, v in funcs.items() if v == 0.0 and f.split(":")[1] in MUST_REACH)
        os.makedirs(os.path.join(VERIF, "audit"), exist_ok=True)
        json.dump({"tests": runs, "rapid_checks_per_test": checks, "total_statement_coverage_percent": total,
                   "functions_below_100_percent": dict(sorted(below.items())), "must_reach_but_unreached": unreached},
                  open(os.path.join(VERIF, "audit", "coverage.json"), "w"), indent=1)
        print("total %.1f%%; below 100%%: %s" % (total or -1, json.dumps(dict(sorted(below.items())))))
        if unreached:
            print("GENERATOR HEALTH: no longer reached:", unreached)
            return 2
        return 0
    finally:
        shutil.rmtree(scratch, ignore_errors=True)


if __name__ == "__main__":
    sys.exit(main())
