// vrewrite redirects selected stdlib selectors in Go source files to the shim
// packages of the verification overlay. It edits text at positions found from
// the AST, so formatting, comments, //go: directives and line numbers survive.
//
// usage: vrewrite -shim github.com/fufuok/cache/zzverif/vs file.go ...
// prints one JSON summary object on stdout.
package main

import (
	"encoding/json"
	"flag"
	"fmt"
	"go/ast"
	"go/parser"
	"go/token"
	"os"
	"sort"
	"strconv"
	"strings"
)

type pkgRule struct {
	alias string
	sub   string          // sub-package under the shim root
	names map[string]bool // selectors to redirect
}

func set(xs ...string) map[string]bool {
	m := map[string]bool{}
	for _, x := range xs {
		m[x] = true
	}
	return m
}

var rules = map[string]*pkgRule{
	"sync/atomic": {alias: "vatomic", sub: "vatomic", names: set(
		"LoadInt32", "LoadInt64", "LoadUint32", "LoadUint64", "LoadUintptr", "LoadPointer",
		"StoreInt32", "StoreInt64", "StoreUint32", "StoreUint64", "StoreUintptr", "StorePointer",
		"AddInt32", "AddInt64", "AddUint32", "AddUint64", "AddUintptr",
		"SwapInt32", "SwapInt64", "SwapUint32", "SwapUint64", "SwapUintptr", "SwapPointer",
		"CompareAndSwapInt32", "CompareAndSwapInt64", "CompareAndSwapUint32", "CompareAndSwapUint64",
		"CompareAndSwapUintptr", "CompareAndSwapPointer",
		"Value", "Int32", "Int64", "Uint32", "Uint64", "Uintptr", "Bool", "Pointer")},
	"sync": {alias: "vsync", sub: "vsync", names: set(
		"Mutex", "RWMutex", "Cond", "NewCond", "Locker")},
	"runtime": {alias: "vruntime", sub: "vruntime", names: set("Gosched")},
	"time": {alias: "vtime", sub: "vtime", names: set(
		"Now", "Since", "Until", "NewTicker", "Ticker", "Tick", "NewTimer", "Timer", "After", "AfterFunc", "Sleep")},
	// pseudo package: channel operations outside select statements (receive, send, close) become vchan calls
	"chan!": {alias: "vchan", sub: "vchan", names: set()},
}

// blocking primitives we do NOT shim; their use is reported as an assumption.
var unshimmedBlocking = map[string]map[string]bool{
	"sync": set("WaitGroup", "Once", "Pool", "Map", "OnceFunc", "OnceValue", "OnceValues"),
}

type edit struct {
	off  int
	n    int
	text string
}

type fileSummary struct {
	File       string         `json:"file"`
	Rewritten  int            `json:"rewritten"`
	Kept       int            `json:"kept"`
	ByName     map[string]int `json:"by_name"`
	KeptNames  map[string]int `json:"kept_names"`
	SeedPinned int            `json:"seed_calls_pinned"`
	Unshimmed  []string       `json:"unshimmed_blocking,omitempty"`
}

func main() {
	shim := flag.String("shim", "github.com/fufuok/cache/zzverif/vs", "import path root of the shim packages")
	flag.Parse()
	var sums []fileSummary
	for _, f := range flag.Args() {
		s, err := rewriteFile(f, *shim)
		if err != nil {
			fmt.Fprintf(os.Stderr, "vrewrite: %s: %v\n", f, err)
			os.Exit(2)
		}
		sums = append(sums, s)
	}
	out := map[string]interface{}{"files": sums}
	tot, kept, seeds := 0, 0, 0
	for _, s := range sums {
		tot += s.Rewritten
		kept += s.Kept
		seeds += s.SeedPinned
	}
	out["rewritten"] = tot
	out["kept"] = kept
	out["seed_pinned"] = seeds > 0
	b, _ := json.Marshal(out)
	fmt.Println(string(b))
}

func rewriteFile(path, shim string) (fileSummary, error) {
	sum := fileSummary{File: path, ByName: map[string]int{}, KeptNames: map[string]int{}}
	src, err := os.ReadFile(path)
	if err != nil {
		return sum, err
	}
	fset := token.NewFileSet()
	file, err := parser.ParseFile(fset, path, src, parser.ParseComments)
	if err != nil {
		return sum, err
	}
	// local name -> import path for the packages we care about
	local := map[string]string{}
	for _, imp := range file.Imports {
		p, _ := strconv.Unquote(imp.Path.Value)
		if _, ok := rules[p]; !ok {
			continue
		}
		name := p[strings.LastIndex(p, "/")+1:]
		if imp.Name != nil {
			name = imp.Name.Name
		}
		if name == "_" || name == "." {
			continue
		}
		local[name] = p
	}
	var edits []edit
	used := map[string]bool{}     // shim aliases needed
	remaining := map[string]int{} // original package uses left
	// channel operations that must stay as they are: the communication clauses of select statements (their
	// semantics cannot be expressed by a call) ...
	keepChan := map[ast.Node]bool{}
	// ... and receives of the two-value form, which use another helper
	recv2 := map[ast.Node]bool{}
	ast.Inspect(file, func(n ast.Node) bool {
		switch x := n.(type) {
		case *ast.SelectStmt:
			for _, c := range x.Body.List {
				if cc, ok := c.(*ast.CommClause); ok && cc.Comm != nil {
					ast.Inspect(cc.Comm, func(m ast.Node) bool {
						switch m.(type) {
						case *ast.UnaryExpr, *ast.SendStmt:
							keepChan[m] = true
						}
						return true
					})
				}
			}
		case *ast.AssignStmt:
			if len(x.Lhs) == 2 && len(x.Rhs) == 1 {
				if u, ok := x.Rhs[0].(*ast.UnaryExpr); ok && u.Op == token.ARROW {
					recv2[u] = true
				}
			}
		case *ast.ValueSpec:
			if len(x.Names) == 2 && len(x.Values) == 1 {
				if u, ok := x.Values[0].(*ast.UnaryExpr); ok && u.Op == token.ARROW {
					recv2[u] = true
				}
			}
		}
		return true
	})
	ast.Inspect(file, func(n ast.Node) bool {
		switch x := n.(type) {
		case *ast.UnaryExpr:
			if x.Op == token.ARROW && !keepChan[x] {
				fn := "vchan.Recv("
				if recv2[x] {
					fn = "vchan.Recv2("
				}
				edits = append(edits, edit{fset.Position(x.OpPos).Offset, 2, fn}, edit{fset.Position(x.X.End()).Offset, 0, ")"})
				used["chan!"] = true
				sum.Rewritten++
				sum.ByName["chan.receive"]++
			}
		case *ast.SendStmt:
			if !keepChan[x] {
				edits = append(edits, edit{fset.Position(x.Pos()).Offset, 0, "vchan.Send("}, edit{fset.Position(x.Arrow).Offset, 2, ","}, edit{fset.Position(x.End()).Offset, 0, ")"})
				used["chan!"] = true
				sum.Rewritten++
				sum.ByName["chan.send"]++
			}
		case *ast.SelectorExpr:
			id, ok := x.X.(*ast.Ident)
			if !ok || id.Obj != nil {
				return true
			}
			p, ok := local[id.Name]
			if !ok {
				return true
			}
			r := rules[p]
			if r.names[x.Sel.Name] {
				off := fset.Position(id.Pos()).Offset
				edits = append(edits, edit{off, len(id.Name), r.alias})
				used[p] = true
				sum.Rewritten++
				sum.ByName[p+"."+x.Sel.Name]++
			} else {
				remaining[p]++
				sum.Kept++
				sum.KeptNames[p+"."+x.Sel.Name]++
				if unshimmedBlocking[p][x.Sel.Name] {
					sum.Unshimmed = append(sum.Unshimmed, p+"."+x.Sel.Name)
				}
			}
		case *ast.CallExpr:
			if id, ok := x.Fun.(*ast.Ident); ok && id.Name == "close" && id.Obj == nil && len(x.Args) == 1 {
				off := fset.Position(id.Pos()).Offset
				edits = append(edits, edit{off, len(id.Name), "vchan.Close"})
				used["chan!"] = true
				sum.Rewritten++
				sum.ByName["chan.close"]++
			}
			if id, ok := x.Fun.(*ast.Ident); ok && id.Name == "runtime_fastrand" {
				off := fset.Position(id.Pos()).Offset
				edits = append(edits, edit{off, len(id.Name), "vruntime.Fastrand"})
				used["runtime"] = true
				sum.SeedPinned++
			}
		}
		return true
	})
	if len(edits) == 0 {
		return sum, nil
	}
	// imports of the shims go on the package clause line (keeps line numbers);
	// originals that became unused get a blank use at the end of the file.
	var imps []string
	var ps []string
	for p := range used {
		ps = append(ps, p)
	}
	sort.Strings(ps)
	for _, p := range ps {
		r := rules[p]
		imps = append(imps, fmt.Sprintf("import %s %q", r.alias, shim+"/"+r.sub))
	}
	nameEnd := fset.Position(file.Name.End()).Offset
	edits = append(edits, edit{nameEnd, 0, "; " + strings.Join(imps, "; ")})
	var tail []string
	for name, p := range local {
		if used[p] && remaining[p] == 0 {
			// is the original import still referenced? no -> keep it alive
			switch p {
			case "sync/atomic":
				tail = append(tail, fmt.Sprintf("var _ = %s.LoadInt32", name))
			case "sync":
				tail = append(tail, fmt.Sprintf("var _ %s.Once", name))
			case "runtime":
				tail = append(tail, fmt.Sprintf("var _ = %s.GC", name))
			case "time":
				tail = append(tail, fmt.Sprintf("var _ %s.Duration", name))
			}
		}
	}
	sort.Strings(tail)
	sort.Slice(edits, func(i, j int) bool { return edits[i].off > edits[j].off })
	out := src
	for _, e := range edits {
		out = append(out[:e.off:e.off], append([]byte(e.text), out[e.off+e.n:]...)...)
	}
	if len(tail) > 0 {
		out = append(out, []byte("\n"+strings.Join(tail, "\n")+"\n")...)
	}
	// the runtime_fastrand redirect needs the vruntime import even if the file
	// does not import runtime itself: handled above via used["runtime"].
	return sum, os.WriteFile(path, out, 0o644)
}
